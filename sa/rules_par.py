"""parallel_add protocol rules: pills, once, nrecs, joinfirst, mergetree (E6-ii), rettable, spawn-pickle (C08);
cb-guard, dead-detect, dead-cleanup, dead-raise (C19)."""
from __future__ import annotations

import ast
import copy
from collections import Counter

from .facts import SKETCH_CLASSES, const_int, facts_of
from .flow import Arr, Bytes, Num, Opaque, Tup, conjuncts, show_cond
from .lin import Lin, show_lin
from .model import AnalysisError, call_name, calls_in, dotted, resolve_temps, self_attr, unparse, walk_no_nested
from .model import comes_before, is_inside
from .rules_arith import agg, fact_strs, group_by_node, on_path, on_path_h, src

H = "helpers"


def _closures(func):
    """Local functions (nested `def`, `lambda`) and generator helpers that survive normalisation: code the rules do not read.  A rule
    that found NOTHING in a function that has such closures cannot say the thing is missing."""
    out = []
    for n in ast.walk(func.node):
        if n is func.node:
            continue
        if isinstance(n, (ast.FunctionDef, ast.AsyncFunctionDef)):
            out.append("def %s" % n.name)
        elif isinstance(n, ast.Lambda):
            out.append("lambda (line %d)" % n.lineno)
    return out


def _absent(func, why):
    """(status, detail) for an obligation whose subject was not found in `func`."""
    cl = _closures(func)
    if cl:
        return None, "%s -- but the function defines %s, which the rule does not read: undecided" % (why, ", ".join(cl[:3]))
    return False, why


def _process_calls(func):
    """ctx.Process(target=..., args=..., kwargs=...) calls in func -> [(call, target name, args tuple node)]"""
    out = []
    for n in walk_no_nested(func.node):
        if isinstance(n, ast.Call) and isinstance(n.func, ast.Attribute) and n.func.attr == "Process":
            kw = {k.arg: k.value for k in n.keywords}
            tgt = kw.get("target")
            a_ = kw.get("args")
            if isinstance(a_, ast.Name):
                # `args = (queue, items, ...); Process(target=..., args=args)`: the tuple display itself (its elements left as written)
                from .model import single_assignments
                once = single_assignments(func.node, allow_subscript=False, in_loops=True, loose=True)
                a_ = once.get(a_.id, a_)
            out.append((n, tgt.id if isinstance(tgt, ast.Name) else None, a_, kw.get("kwargs")))
    return out


def _resolved(func, expr):
    """`expr` with the function's single-assignment temporaries replaced by their definitions (also loop-local ones)."""
    return resolve_temps(func.node, expr, allow_subscript=True, pure_only=False, in_loops=True, loose=True)


def _def_before(func, node, name):
    """The expression most recently assigned to `name` by a plain assignment that precedes (in the same statement list) the
    statement containing `node`; None if there is none."""
    def find(stmts):
        for i, s_ in enumerate(stmts):
            if any(x is node for x in ast.walk(s_)):
                # inside s_: look deeper first
                for fld in ("body", "orelse", "finalbody"):
                    sub = getattr(s_, fld, None)
                    if isinstance(sub, list):
                        r = find(sub)
                        if r is not None:
                            return r
                for j in range(i - 1, -1, -1):
                    p_ = stmts[j]
                    if isinstance(p_, ast.Assign) and len(p_.targets) == 1 and isinstance(p_.targets[0], ast.Name) and p_.targets[0].id == name:
                        return p_.value
                    if isinstance(p_, ast.If) and p_.body and p_.orelse:
                        # bound in both arms of an if/else by calls of the same callable with the same `target=` (a process
                        # started with or without optional keyword arguments): either definition describes it
                        def last_def(arm):
                            for q in reversed(arm):
                                if isinstance(q, ast.Assign) and len(q.targets) == 1 and isinstance(q.targets[0], ast.Name) and q.targets[0].id == name:
                                    return q.value
                            return None
                        a_, b_ = last_def(p_.body), last_def(p_.orelse)
                        if isinstance(a_, ast.Call) and isinstance(b_, ast.Call) and dotted(a_.func) == dotted(b_.func) \
                                and unparse(next((k.value for k in a_.keywords if k.arg == "target"), None) or a_.func) \
                                == unparse(next((k.value for k in b_.keywords if k.arg == "target"), None) or b_.func):
                            return a_
                    if any(isinstance(x, ast.Name) and x.id == name and isinstance(x.ctx, ast.Store) for x in ast.walk(p_)):
                        return None
                return None
        return None
    return find(func.node.body)


def _appends(func):
    """[(list name, appended expression (resolved), call node)] for every `<name>.append(x)` in func."""
    out = []
    for n in walk_no_nested(func.node):
        if isinstance(n, ast.Call) and isinstance(n.func, ast.Attribute) and n.func.attr == "append" and len(n.args) == 1 \
                and isinstance(n.func.value, ast.Name):
            v = _resolved(func, n.args[0])
            if isinstance(v, ast.Name):
                # a name bound more than once in the function (also used as a loop variable elsewhere): the definition that
                # reaches this append in its own block
                d = _def_before(func, n, v.id)
                if d is not None:
                    v = _resolved(func, d)
            out.append((n.func.value.id, v, n))
    return out


def workers_list(pa, wk):
    """Name of the list that receives the Process(target=_worker, ...) objects."""
    for name, v, n in _appends(pa):
        if isinstance(v, ast.Call) and isinstance(v.func, ast.Attribute) and v.func.attr == "Process":
            kw = {k.arg: k.value for k in v.keywords}
            if isinstance(kw.get("target"), ast.Name) and kw["target"].id == wk.name:
                return name
    return None


def _is_proc_join(c):
    """p.join() / p.join(timeout) on something that is not a string (`", ".join(xs)` is text, not a process)."""
    if not (isinstance(c, ast.Call) and isinstance(c.func, ast.Attribute) and c.func.attr == "join"):
        return False
    r = c.func.value
    if isinstance(r, (ast.Constant, ast.JoinedStr)) or (isinstance(r, ast.Attribute) and r.attr in ("sep", "linesep", "pathsep")) \
            or dotted(c.func) in ("os.path.join", "str.join", "posixpath.join"):
        return False
    return True


def _top_index(func, node):
    """Index of the top-level statement of func's body containing node."""
    for i, s in enumerate(func.body()):
        if is_inside(func.node, node, s):
            return i
    return -1


# ---------------------------------------------------------------------------
# pills
# ---------------------------------------------------------------------------

def rule_pills(ctx):
    F = facts_of(ctx)
    fq = ctx.model.func(H, "_fill_queue")
    pa = ctx.model.func(H, "parallel_add")
    wk = ctx.model.func(H, "_worker")
    ctx.analysed_funcs.update([fq.key, pa.key])
    # the Process that runs _fill_queue
    pcs = [p for p in _process_calls(pa) if p[1] == fq.name]
    if len(pcs) != 1 or not isinstance(pcs[0][2], ast.Tuple):
        ctx.ob("pills", pa, pa.node, "Process(target=_fill_queue, args=...)", "the filler process is started with a readable argument tuple", None)
        return
    args = pcs[0][2].elts
    amap = dict(zip(fq.params, args))
    # (0) the parent hands `items` to the filler and does nothing else with it: iterating, indexing or measuring it in the parent
    #     consumes elements of a generator (which the filler then never sees) or fails on one
    items_name = next((a.id for a in args if isinstance(a, ast.Name) and a.id in pa.params and a.id == "items"), None) or \
        next((a.id for p_, a in amap.items() if isinstance(a, ast.Name) and a.id in pa.params and p_ in ("items", "iterable", "data")), None)
    if items_name is not None:
        uses = [n for n in walk_no_nested(pa.node) if isinstance(n, ast.Name) and n.id == items_name and isinstance(n.ctx, ast.Load)]
        par = {}
        for n in walk_no_nested(pa.node):
            for ch in ast.iter_child_nodes(n):
                par[id(ch)] = n
        bad = []
        for u in uses:
            pn = par.get(id(u))
            if pn is pcs[0][2]:
                continue                                   # the filler's argument tuple
            if isinstance(pn, ast.Compare) and all(isinstance(c_, ast.Constant) and c_.value is None for c_ in pn.comparators):
                continue                                   # `items is None`
            if isinstance(pn, ast.Call) and isinstance(pn.func, ast.Name) and pn.func.id in ("isinstance", "type", "id", "callable", "hasattr"):
                continue
            if isinstance(pn, ast.FormattedValue):
                continue
            bad.append(pn if pn is not None else u)
        ctx.ob("pills", pa, bad[0] if bad else pcs[0][0] if hasattr(pcs[0][0], "lineno") else pa.node, "uses of `%s` in parallel_add" % items_name,
               "the parent only hands the items to the filler process (a generator is consumed there, once)", not bad,
               "" if not bad else "`%s` in parallel_add touches the items before the filler does: an element taken from a generator here never "
                                  "reaches the queue" % unparse(bad[0], 60))
    # (1) every item put exactly once, unconditionally
    w = F.walk(fq)
    items_p = None
    for p, a in amap.items():
        if isinstance(a, ast.Name) and a.id == "items":
            items_p = p
    queue_p = None
    wq = [p for p in _process_calls(pa) if p[1] == wk.name]
    # the work queue: the one also handed to the workers
    if wq and isinstance(wq[0][2], ast.Tuple):
        wnames = {unparse(e) for e in wq[0][2].elts}
        for p, a in amap.items():
            if unparse(a) in wnames and p != items_p and "log" not in p:
                queue_p = p
    if items_p is None or queue_p is None:
        ctx.ob("pills", fq, fq.node, "_fill_queue(queue, items, ...)", "filler receives the work queue and the items", None, "roles not identified: %r" % {k: unparse(v) for k, v in amap.items()})
        return
    item_loops = [n for n in fq.body() if isinstance(n, ast.For) and items_p in {x.id for x in ast.walk(n.iter) if isinstance(x, ast.Name)}]
    okk, why = False, "no loop over the items"
    if len(item_loops) == 1:
        lp = item_loops[0]
        tv = None
        it = lp.iter
        if isinstance(it, ast.Name) and isinstance(lp.target, ast.Name):
            tv = lp.target.id
        elif isinstance(it, ast.Call) and dotted(it.func) == "enumerate" and isinstance(lp.target, ast.Tuple) and len(lp.target.elts) == 2:
            tv = lp.target.elts[1].id if isinstance(lp.target.elts[1], ast.Name) else None
        puts = [s for s in lp.body if isinstance(s, ast.Expr) and isinstance(s.value, ast.Call) and dotted(s.value.func) == queue_p + ".put"]
        all_puts = [n for n in walk_no_nested(lp) if isinstance(n, ast.Call) and dotted(n.func) == queue_p + ".put"]
        escapes = [n for n in walk_no_nested(lp) if isinstance(n, (ast.Break, ast.Continue, ast.Return))]
        first_risky = next((i for i, s in enumerate(lp.body) if isinstance(s, (ast.If, ast.Try, ast.While, ast.For))), len(lp.body))
        okk = tv is not None and len(puts) == 1 and len(all_puts) == 1 and len(puts[0].value.args) == 1 \
            and isinstance(puts[0].value.args[0], ast.Name) and puts[0].value.args[0].id == tv and not escapes
        why = "" if okk else "items are not each `put` once, unconditionally, at the top of the loop body"
    ctx.ob("pills", fq, item_loops[0] if item_loops else fq.node, "for item in items: queue.put(item)", "every item is placed on the work queue exactly once", okk, why)
    # (2) pills >= workers
    nw_arg = None
    pill_loops = []
    for n in fq.body():
        if isinstance(n, ast.For) and any(isinstance(c, ast.Call) and dotted(c.func) == queue_p + ".put" and len(c.args) == 1
                                          and isinstance(c.args[0], ast.Constant) and c.args[0].value is None for c in calls_in(n)):
            pill_loops.append(n)
    lends = [e for e in w.events if e.kind == "loopstart" and e.node in pill_loops]
    res = []
    pill_param = None
    for e in lends:
        lp = e.loop
        if lp.kind != "range" or lp.start != Lin.const(0) or lp.step != Lin.const(1):
            res.append((None, "pill loop is not range(n) from 0"))
            continue
        ps = [t for t in lp.stop.terms() if t[0] == "param"]
        if len(ps) != 1 or lp.stop.c[ps[0]] != 1:
            res.append((None, "pill count %s is not <parameter> + c" % show_lin(lp.stop)))
            continue
        pill_param = ps[0][1]
        surplus = lp.stop - Lin.term(ps[0])
        okk = surplus.is_const() and surplus.k >= 0
        res.append((bool(okk), "pills = %s" % show_lin(lp.stop) if okk else "only %s pills: fewer than one per worker, a worker never returns" % show_lin(lp.stop), fact_strs(e)))
    unconditional = all(isinstance(s, ast.Expr) for n in pill_loops for s in n.body) and len(pill_loops) == 1
    if not lends:
        res.append((False, "no loop putting one None per worker after the items"))
    agg(ctx, "pills", fq, pill_loops[0] if pill_loops else fq.node, "for _ in range(n_workers): queue.put(None)",
        "after all items at least one poison pill per worker is queued", res)
    ctx.ob("pills", fq, pill_loops[0] if pill_loops else fq.node, "pill loop body", "each iteration of the pill loop puts a pill unconditionally", bool(unconditional))
    if pill_loops and item_loops:
        ctx.ob("pills", fq, pill_loops[0], "pills after items", "pills are queued after every item", comes_before(fq.node, item_loops[0], pill_loops[0]))
    # the same n_workers binding feeds the pill count and the number of workers started
    nw = amap.get(pill_param) if pill_param else None
    starts = []
    for n in pa.body():
        if isinstance(n, ast.For) and any(p[1] == wk.name and any(x is p[0] for x in ast.walk(n)) for p in _process_calls(pa)):
            starts.append(n)
    okk, why = False, "worker start loop not found"
    if len(starts) == 1 and isinstance(nw, ast.Name):
        it = starts[0].iter
        okk = isinstance(it, ast.Call) and dotted(it.func) == "range" and len(it.args) == 1 and isinstance(it.args[0], ast.Name) and it.args[0].id == nw.id
        why = "" if okk else "workers are started over `%s` but the filler is told `%s`" % (unparse(it), unparse(nw))
        if okk:
            # no rebinding between the two uses
            # (positions are taken from the statement list, not from line numbers: inlined helper code keeps the helper's lines)
            body_ = pa.body()
            i_f = next((i for i, st_ in enumerate(body_) if any(x is pcs[0][0] for x in ast.walk(st_))), 0)
            i_s = next((i for i, st_ in enumerate(body_) if st_ is starts[0]), len(body_) - 1)
            lo_, hi_ = min(i_f, i_s), max(i_f, i_s)
            reb = [n for st_ in body_[lo_:hi_ + 1] for n in ast.walk(st_) if isinstance(n, ast.Name) and n.id == nw.id and isinstance(n.ctx, ast.Store)]
            okk = not reb
            why = "" if okk else "`%s` is rebound between starting the filler and starting the workers" % nw.id
        started = [c for c in calls_in(starts[0]) if isinstance(c.func, ast.Attribute) and c.func.attr == "start"]
        if okk and not started:
            okk, why = False, "workers are created but not started in the loop"
    ctx.ob("pills", pa, starts[0] if starts else pa.node, "for i in range(n_workers): Process(target=_worker).start()",
           "as many workers are started as the filler queues pills for (same n_workers binding)", okk, why)


# ---------------------------------------------------------------------------
# once / nrecs / cb-guard  (_worker)
# ---------------------------------------------------------------------------

class WorkerFacts:
    """Roles inside _worker, found from values rather than names or statement shapes:
      get      -- the call events `<queue parameter>.get()` inside the worker loop
      cb       -- the call events of the callback parameter (called with a starred list of local sketches)
      loop     -- the worker loop (the loop in which both happen)
      is_pill  -- for an event: True/False/None = its path decided `item is None` that way
    """

    def __init__(self, ctx):
        F = facts_of(ctx)
        self.wk = wk = ctx.model.func(H, "_worker")
        ctx.analysed_funcs.add(wk.key)
        self.w = w = F.walk(wk)
        calls = [e for e in w.events if e.kind == "call" and isinstance(e.node, ast.Call)]
        self.cb = [e for e in calls if isinstance(e.node.func, ast.Name) and e.node.func.id in wk.params
                   and any(isinstance(a, ast.Starred) for a in e.node.args)]
        self.get = [e for e in calls if isinstance(e.node.func, ast.Attribute) and e.node.func.attr == "get"
                    and isinstance(e.node.func.value, ast.Name) and e.node.func.value.id in wk.params and e.loops]
        self.loop_node = None
        if self.get:
            self.loop_node = self.get[0].loops[0].node
        self.cb_nodes = {id(e.node) for e in self.cb}
        self.get_nodes = {id(e.node) for e in self.get}

    def iterations(self):
        """(continuing iterations, stopping iterations/exits, flag_ok): the ways through one pass of the worker loop."""
        w, lp = self.w, self.loop_node
        cont = [e for e in w.events if e.kind == "loopend" and e.loop.node is lp]
        exits = [e for e in w.events if (e.kind == "loopbreak" and e.loop.node is lp) or (e.kind == "ret" and e.loops and e.loops[0].node is lp)]
        # a loop governed by a flag (`while not done:` / `while running:`): an iteration that ends with the flag set so that the test
        # fails is a stop, every other iteration continues; the flag must hold the continuing value when the loop is entered
        t = lp.test if isinstance(lp, ast.While) else None
        flag, stop_value = None, None
        if isinstance(t, ast.UnaryOp) and isinstance(t.op, ast.Not) and isinstance(t.operand, ast.Name):
            flag, stop_value = t.operand.id, True
        elif isinstance(t, ast.Name):
            flag, stop_value = t.id, False

        def flag_value(env):
            v = env.get(flag)
            c = getattr(v, "cond", None)
            if c == ("true",):
                return True
            if c == ("false",):
                return False
            return None
        flag_ok = None
        if flag is not None:
            ls = [x for x in w.events if x.kind == "loopstart" and x.node is lp]
            entry = flag_value(ls[0].envsnap) if ls else None
            stops = [e for e in cont if flag_value(e.env) is stop_value]
            unknown = [e for e in cont if flag_value(e.env) is None and any(
                x.kind == "assign" and x.name == flag for x in on_path_h(w.events, e) if x.loops and x.loops[0] is e.loops[0])]
            flag_ok = entry is (not stop_value) and not unknown
            if flag_ok:
                exits = exits + stops
                cont = [e for e in cont if e not in stops]
        return cont, exits, flag_ok

    def in_loop(self, ev):
        return bool(ev.loops) and ev.loops[0].node is self.loop_node

    def item_of(self, ev):
        """The value taken from the queue in the iteration `ev` belongs to (last get on its path in the same loop execution)."""
        gs = [x for x in on_path_h(self.w.events, ev) if id(x.node) in self.get_nodes and x.loops and ev.loops and x.loops[0] is ev.loops[0]]
        return gs[-1] if gs else None

    def is_pill(self, ev, getev):
        if getev is None:
            return None
        item = getev.result if hasattr(getev, "result") else None
        for (_, _, cc) in ev.path:
            for c in conjuncts(cc):
                pol = True
                while c[0] == "not":
                    c, pol = c[1], not pol
                if c[0] == "atom" and isinstance(c[1], tuple) and c[1][0] == "cmp" and c[1][1] in ("is", "eq"):
                    info = c[2] or {}
                    a, b = info.get("a"), info.get("b")
                    for x, y in ((a, b), (b, a)):
                        if x is item and isinstance(y, Opaque) and y.desc == ("const", None):
                            return pol
        return None


def _wf(ctx):
    return ctx.shared("worker-facts", lambda: WorkerFacts(ctx))


def rule_once(ctx):
    W = _wf(ctx)
    wk, w = W.wk, W.w
    lp = W.loop_node
    if not W.get or lp is None:
        ctx.ob("once", wk, wk.node, "q_item = in_queue.get()", "the worker takes its items from the work queue inside a loop", False, "no <queue>.get() in a loop")
        return
    if not W.cb:
        ctx.ob("once", wk, lp, "process_q_item(q_item, *local_sketches, **kwargs)", "the callback is applied to the item", False, "callback call not found")
        return
    cbn = W.cb[0].node
    star = [a for a in cbn.args if isinstance(a, ast.Starred)]
    # (a) callback arguments: (this iteration's item, *local sketches, **kwargs)
    res = []
    for e in W.cb:
        g = W.item_of(e)
        a0 = e.args[0] if e.args else None
        okk = g is not None and a0 is getattr(g, "result", None) and len(e.node.args) == 2 and len(star) == 1 and any(k.arg is None for k in e.node.keywords)
        res.append((bool(okk), "callback(item, *local sketches, **kwargs)" if okk else "the callback does not receive (the item just taken, *local sketches, **kwargs)", fact_strs(e)))
    agg(ctx, "once", wk, cbn, unparse(cbn, 80), "the callback receives (item, *local sketches, **kwargs)", res)
    # (b) local sketches: one attach per descriptor of the `sketch` parameter, in order
    oka, where = False, wk.node
    if star and isinstance(star[0].value, ast.Name):
        lname = star[0].value.id
        for n in walk_no_nested(wk.node):
            # local_sketches = [attach_shared_memory(*s) for s in sketch]
            if isinstance(n, ast.Assign) and isinstance(n.targets[0], ast.Name) and n.targets[0].id == lname and isinstance(n.value, ast.ListComp):
                lc = n.value
                if len(lc.generators) == 1 and not lc.generators[0].ifs and isinstance(lc.generators[0].iter, ast.Name) and lc.generators[0].iter.id in wk.params \
                        and isinstance(lc.generators[0].target, ast.Name) and _is_attach_of(lc.elt, lc.generators[0].target.id):
                    oka, where = True, n
            # for s in sketch: local_sketches.append(attach_shared_memory(*s))
            if isinstance(n, ast.For) and isinstance(n.iter, ast.Name) and n.iter.id in wk.params and isinstance(n.target, ast.Name) and not n.orelse:
                aps = [(nm, v, c) for nm, v, c in _appends(wk) if nm == lname and is_inside(wk.node, c, n)]
                escapes = [x for x in walk_no_nested(n) if isinstance(x, (ast.Break, ast.Continue, ast.Return, ast.If))]
                if len(aps) == 1 and not escapes and _is_attach_of(aps[0][1], n.target.id):
                    oka, where = True, n
    ctx.ob("once", wk, where, "for s in sketch: local_sketches.append(attach_shared_memory(*s))",
           "the worker attaches one local view per descriptor, in the order given (alphabetical cms, hh, hll)", oka)
    # (c) every way through one iteration: exactly one get first; a real item is processed exactly once and the loop goes on;
    #     the pill is not processed and ends the loop
    cont, exits, flag_ok = W.iterations()
    t = lp.test if isinstance(lp, ast.While) else None
    res = []
    for e in cont:
        evs = [x for x in on_path_h(w.events, e) if x.loops and x.loops[0] is e.loops[0]]
        n_get = len([x for x in evs if id(x.node) in W.get_nodes])
        n_cb = len([x for x in evs if id(x.node) in W.cb_nodes])
        pill = W.is_pill(e, W.item_of(e))
        okk = n_get == 1 and n_cb == 1 and pill is False
        res.append((okk, "one get, one callback, item is not None" if okk else
                    ("a path through the loop body makes %d get() and %d callback call(s)" % (n_get, n_cb) if (n_get, n_cb) != (1, 1) else
                     "the loop continues although the item may be the poison pill"), fact_strs(e)))
    agg(ctx, "once", wk, lp, "loop body (item path)", "an item taken from the queue is processed exactly once before the next is taken", res or [(False, "the loop never continues", [])])
    res = []
    for e in exits:
        evs = [x for x in on_path_h(w.events, e) if x.loops and x.loops[0] is e.loops[0]]
        n_get = len([x for x in evs if id(x.node) in W.get_nodes])
        n_cb = len([x for x in evs if id(x.node) in W.cb_nodes])
        pill = W.is_pill(e, W.item_of(e))
        okk = n_cb == 0 and pill is True and n_get == 1
        res.append((okk, "the worker stops only on the poison pill, without processing it" if okk else
                    "the worker can stop on a real item or after processing one", fact_strs(e)))
    if not exits:
        res.append((False, "the worker never returns", []))
    agg(ctx, "once", wk, exits[0].node if exits else lp, "stop on the poison pill", "None ends the worker on every path, and only None does", res)
    # (d) the loop has no other way out: `while True`, or a flag that only a stop iteration (classified above) sets
    always = (isinstance(t, ast.Constant) and bool(t.value) is True) or bool(flag_ok)
    ctx.ob("once", wk, lp, "while %s" % (unparse(t, 30) if t is not None else "?"), "the loop ends only through the pill", bool(always),
           "" if always else "the loop condition can end the loop without a pill having been received")
    # (e) the get is the first thing an iteration does (nothing is processed before an item is taken)
    res = []
    for g in W.get:
        before = [x for x in on_path_h(w.events, g) if x.loops and x.loops[0] is g.loops[0] and x.kind == "call"]
        res.append((not before, "the get comes first" if not before else "`%s` runs before the item is taken" % unparse(before[0].node, 50), fact_strs(g)))
    agg(ctx, "once", wk, W.get[0].node, "q_item = in_queue.get()", "each iteration takes exactly one item from the work queue, first thing", res)


def _is_attach_of(expr, var):
    """attach_shared_memory(*var)"""
    return isinstance(expr, ast.Call) and dotted(expr.func) == "attach_shared_memory" and len(expr.args) == 1 and not expr.keywords \
        and isinstance(expr.args[0], ast.Starred) and isinstance(expr.args[0].value, ast.Name) and expr.args[0].value.id == var


def rule_nrecs(ctx):
    W = _wf(ctx)
    wk, w, lp = W.wk, W.w, W.loop_node
    if lp is None or not W.cb:
        ctx.ob("nrecs", wk, wk.node, "n_records += n_recs", "the worker accumulates the callback's return value", False, "worker loop / callback not found")
        return
    # the accumulator: the local whose in-loop update adds the callback's result
    accs = [e for e in w.events if e.kind == "assign" and e.aug is not None and isinstance(e.aug[0], ast.Add) and W.in_loop(e)
            and any(e.aug[2] is getattr(c, "result", None) for c in W.cb)]
    if not accs:
        ctx.ob("nrecs", wk, lp, "n_records += n_recs", "the worker accumulates the callback's return value", False, "no accumulation of the callback's result found")
        return
    accname = accs[0].name
    cont, _exits, _ = W.iterations()
    res = []
    for e in cont:
        evs = [x for x in on_path(w.events, e) if x.kind == "assign" and x.name == accname and x.loops and x.loops[0] is e.loops[0]]
        handler = any(isinstance(pol, tuple) and pol and pol[0] == "handler" or pol == "handler" for (_, pol, _) in e.path)
        okk = len(evs) == 1 and evs[0].aug is not None and isinstance(evs[0].aug[0], ast.Add)
        if okk:
            amt = evs[0].aug[2]
            cbs = [x for x in on_path_h(w.events, e) if id(x.node) in W.cb_nodes and x.loops and x.loops[0] is e.loops[0]]
            if handler:
                okk = isinstance(amt, Num) and amt.lin == Lin.const(0)
                why = "a failed item adds 0" if okk else "a failed item adds %r instead of 0" % (amt,)
            else:
                okk = bool(cbs) and amt is getattr(cbs[-1], "result", None)
                why = "the callback's return value is added" if okk else "the amount added is not this item's callback result"
        else:
            why = "%d accumulations on an item path" % len(evs)
        res.append((bool(okk), why, fact_strs(e)))
    agg(ctx, "nrecs", wk, accs[0].node, "%s += <callback result>" % accname, "the record count grows once per processed item, by the callback's return value", res)
    # starts at zero
    ls = [x for x in w.events if x.kind == "loopstart" and x.node is lp]
    init = ls[0].envsnap.get(accname) if ls else None
    okk = isinstance(init, Num) and init.lin == Lin.const(0)
    ctx.ob("nrecs", wk, lp, "%s = 0" % accname, "the record count starts at zero", bool(okk))
    # at the pill: every local sketch's n_added_records[1] += accumulated count, exactly once
    fin = [e for e in w.events if e.kind == "otherstore" and isinstance(e.target, ast.Subscript) and isinstance(e.target.value, ast.Attribute)
           and e.target.value.attr == "n_added_records"]
    star = [a for a in W.cb[0].node.args if isinstance(a, ast.Starred)]
    lname = star[0].value.id if star and isinstance(star[0].value, ast.Name) else None
    rets = [e for e in w.events if e.kind == "ret"]
    _cont, stops, _ = W.iterations()
    stop_iters = [e for e in stops if e.kind == "loopend"]       # flag-governed loop: the iteration that set the flag

    def passes(ev):
        return [x for x in on_path_h(w.events, ev) if x.kind == "loopstart" and isinstance(x.node, ast.For) and isinstance(x.node.iter, ast.Name)
                and x.node.iter.id == lname and any(f.loops and f.loops[-1] is x.loop for f in fin)]
    res = []
    for r in rets:
        if stop_iters and not r.loops:
            # the return is reached through the loop test: the history is (a stopping iteration) + (what follows the loop)
            for s_ in stop_iters:
                n_ = len(passes(s_)) + len([x for x in passes(r) if not x.loops])
                res.append((n_ == 1, "one pass over the local sketches adds the count" if n_ == 1 else "%d finalisation passes before the worker returns" % n_, fact_strs(r)))
            continue
        fl = passes(r)
        okk = len(fl) == 1
        if not fl and _closures(wk):
            res.append(_absent(wk, "0 finalisation passes on a path that returns") + (fact_strs(r),))
            continue
        res.append((okk, "one pass over the local sketches adds the count" if okk else "%d finalisation passes on a path that returns" % len(fl), fact_strs(r)))
    agg(ctx, "nrecs", wk, fin[0].node if fin else wk.node, "for local_sketch in local_sketches", "every local sketch receives the count exactly once before the worker returns", res or [(False, "the worker never returns", [])])
    res = []
    seen_loops = {}
    for f in fin:
        if f.loops:
            seen_loops.setdefault(id(f.loops[-1]), f.loops[-1])
    for lid, floop in seen_loops.items():
        for le in [x for x in w.events if x.kind == "loopend" and x.loop is floop]:
            handler = any(isinstance(pol, tuple) and pol and pol[0] == "handler" or pol == "handler" for (_, pol, _) in le.path[-2:])
            mine = [f for f in on_path_h(w.events, le) if f in fin and f.loops and f.loops[-1] is floop]
            if handler and not mine:
                continue        # a sketch without record counters (HyperLogLog): the attribute error is swallowed
            ok1 = len(mine) == 1
            ok2 = False
            if ok1:
                f = mine[0]
                slot = const_int(f.target.slice)
                amt = f.aug[2] if f.aug is not None and isinstance(f.aug[0], ast.Add) else None
                ok2 = slot == 1 and isinstance(amt, Num) and any(t[0] == "var" and t[1] == accname for t in amt.lin.terms()) and len(amt.lin.terms()) == 1 \
                    and amt.lin.k == 0
                obj = f.target.value.value
                ok2 = ok2 and isinstance(obj, ast.Name) and isinstance(floop.node.target, ast.Name) and obj.id == floop.node.target.id
            res.append((bool(ok1 and ok2), "n_added_records[1] += %s" % accname if ok1 and ok2 else
                        ("%d updates per sketch" % len(mine) if not ok1 else "the update is not `<this sketch>.n_added_records[1] += %s`" % accname), fact_strs(le)))
    agg(ctx, "nrecs", wk, fin[0].node if fin else wk.node, "local_sketch.n_added_records[1] += n_records",
        "at the pill the worker adds its record count to slot 1 of each sketch, once", res or [_absent(wk, "no update of n_added_records found") + ([],)])


def rule_cb_guard(ctx):
    W = _wf(ctx)
    wk, w, lp = W.wk, W.w, W.loop_node
    if not W.cb or lp is None:
        ctx.ob("cb-guard", wk, wk.node, "process_q_item(...)", "callback call found", None)
        return
    cb = W.cb[0].node
    tries = [n for n in walk_no_nested(lp) if isinstance(n, ast.Try) and any(x is cb for s in n.body for x in ast.walk(s))]
    if not tries:
        ctx.ob("cb-guard", wk, cb, unparse(cb, 60), "the callback is called inside try/except", False,
               "a raising callback kills the worker: the remaining items are lost or the run hangs")
        return
    t = tries[-1]
    broad = False
    for h in t.handlers:
        nm = dotted(h.type) if h.type is not None else None
        if h.type is None or nm in ("Exception", "BaseException"):
            broad = True
    ctx.ob("cb-guard", wk, t, "except %s" % ", ".join((dotted(h.type) or "<bare>") if h.type is not None else "<bare>" for h in t.handlers),
           "the handler catches every Exception of the callback", broad, "" if broad else "only narrower exception types are caught")
    esc = [n for h in t.handlers for s in h.body for n in walk_no_nested(s) if isinstance(n, (ast.Raise, ast.Return, ast.Break))]
    ctx.ob("cb-guard", wk, esc[0] if esc else t, "handler body", "the handler neither re-raises nor leaves the loop: the other items are still processed", not esc)
    # the handler itself must not be able to fail on the item: the queue item is an arbitrary object, so it may only be formatted
    # (f-string placeholder, str(), repr()); len(), indexing, slicing, iteration or arithmetic on it raise for some item types and
    # the exception escapes from inside the handler, killing the worker
    gets = W.get
    itemvars = set()
    for g in gets:
        for n in walk_no_nested(lp):
            if isinstance(n, ast.Assign) and n.value is g.node and isinstance(n.targets[0], ast.Name):
                itemvars.add(n.targets[0].id)
    parents = {}
    for h in t.handlers:
        for n in ast.walk(h):
            for ch in ast.iter_child_nodes(n):
                parents[id(ch)] = n
    bad_uses = []
    for h in t.handlers:
        for n in ast.walk(h):
            if isinstance(n, ast.Name) and n.id in itemvars and isinstance(n.ctx, ast.Load):
                par = parents.get(id(n))
                safe = isinstance(par, ast.FormattedValue) or (
                    isinstance(par, ast.Call) and isinstance(par.func, ast.Name) and par.func.id in ("str", "repr", "type", "id") and par.args == [n]) or (
                    isinstance(par, ast.Call) and isinstance(par.func, ast.Attribute) and par.func.attr == "format")
                if not safe:
                    bad_uses.append(par if par is not None else n)
    ctx.ob("cb-guard", wk, bad_uses[0] if bad_uses else t, "uses of the item inside the handler",
           "the handler only formats the item (it is an arbitrary object): nothing in the handler can raise on it", not bad_uses,
           "" if not bad_uses else "`%s` in the handler raises for some items (no len(), not sliceable, ...): the exception escapes from the "
                                   "handler and the worker dies with the rest of its items unprocessed" % unparse(bad_uses[0], 60))
    # ... and what the handler sends to another process is text: the caught exception (like the item) is an arbitrary object of the
    # callback's making; put on a queue as an object it is pickled here and rebuilt in the receiving process, where an exception class
    # that does not survive the round trip kills the receiver (the log process) -- after which every producer blocks
    excvars = {h.name for h in t.handlers if h.name}
    sent = []
    for h in t.handlers:
        for n in ast.walk(h):
            if isinstance(n, ast.Call) and isinstance(n.func, ast.Attribute) and n.func.attr in ("put", "put_nowait", "send"):
                for a in n.args:
                    for x in ast.walk(a):
                        if isinstance(x, ast.Name) and x.id in (excvars | itemvars) and isinstance(x.ctx, ast.Load):
                            par = parents.get(id(x))
                            safe = isinstance(par, ast.FormattedValue) or (
                                isinstance(par, ast.Call) and isinstance(par.func, ast.Name) and par.func.id in ("str", "repr", "type") and par.args == [x]) or (
                                isinstance(par, ast.Call) and isinstance(par.func, ast.Attribute) and par.func.attr == "format")
                            if not safe:
                                sent.append(x)
    ctx.ob("cb-guard", wk, sent[0] if sent else t, "what the handler puts on a queue",
           "the handler reports the failure as text: neither the exception object nor the item is sent to another process", not sent,
           "" if not sent else "the handler puts the object `%s` on a queue: an exception (or item) that cannot be rebuilt by the receiving process kills it, "
                               "and with the log process gone the producers block and parallel_add hangs" % sent[0].id)
    # the failure path: the iteration still ends normally (loop continues) having added exactly 0 records
    cont, _exits, _ = W.iterations()
    hpaths = [e for e in cont if any((isinstance(pol, tuple) and pol and pol[0] == "handler") or pol == "handler" for (_, pol, _) in e.path)]
    accs = [e for e in w.events if e.kind == "assign" and e.aug is not None and isinstance(e.aug[0], ast.Add) and W.in_loop(e)
            and any(e.aug[2] is getattr(c, "result", None) for c in W.cb)]
    accname = accs[0].name if accs else None
    res = []
    for e in hpaths:
        evs = [x for x in on_path(w.events, e) if x.kind == "assign" and x.name == accname and x.loops and x.loops[0] is e.loops[0]]
        okk = len(evs) == 1 and evs[0].aug is not None and isinstance(evs[0].aug[2], Num) and evs[0].aug[2].lin == Lin.const(0)
        res.append((bool(okk), "a failed item contributes 0 records and the loop goes on" if okk else
                    "after a failing callback the record count is not increased by exactly 0 (stale or missing per-item count)", fact_strs(e)))
    agg(ctx, "cb-guard", wk, t, "except ...: n_recs = 0; n_records += n_recs", "a failed item contributes 0 records and the loop continues",
        res or [(False, "no path continues the loop after a failing callback", [])])
    # nothing outside the guard may fail on what the callback (or its failure) left behind: after failed items the record counts are 0,
    # so a division by them kills the worker just like an unguarded callback exception would
    cnt_names = {accname} if accname else set()
    for e in w.events:
        if e.kind == "assign" and W.in_loop(e) and any(getattr(c, "result", None) is not None and e.value is c.result for c in W.cb):
            cnt_names.add(e.name)
    guarded = {id(n) for n in ast.walk(t)}
    divs = []
    for n in ast.walk(lp):
        if id(n) in guarded:
            continue
        if isinstance(n, ast.BinOp) and isinstance(n.op, (ast.Div, ast.FloorDiv, ast.Mod)):
            den = {x.id for x in ast.walk(n.right) if isinstance(x, ast.Name)}
            if den & cnt_names:
                divs.append(n)
    ctx.ob("cb-guard", wk, divs[0] if divs else lp, "divisions by the record counts outside the guard",
           "no statement of the worker loop outside the guard can raise because an item failed", not divs,
           "" if not divs else "`%s` divides by a record count that is 0 while every item so far has failed: ZeroDivisionError outside the guard, the worker dies" % unparse(divs[0], 60))


# ---------------------------------------------------------------------------
# joinfirst / rettable / spawn-pickle
# ---------------------------------------------------------------------------

def sketch_roles(pa):
    """tag -> {'array': name of the per-worker list, 'final': name bound to parallel_merging(array), 'args': parameter}."""
    roles = {}
    facs = {"cms": "CountMin", "hh": "HeavyHitters", "hll": "HyperLogLog"}
    aps = _appends(pa)
    for tag, fac in facs.items():
        arr = fin = None
        ap_nodes = []
        for name, v, n in aps:
            if isinstance(v, ast.Call) and dotted(v.func) == fac:
                arr = name
                ap_nodes.append((n, v))
        merges = []
        for n in walk_no_nested(pa.node):
            if isinstance(n, ast.Assign) and isinstance(n.targets[0], ast.Name) and isinstance(n.value, ast.Call) and dotted(n.value.func) == "parallel_merging" \
                    and n.value.args and isinstance(n.value.args[0], ast.Name) and n.value.args[0].id == arr:
                fin = n.targets[0].id
                merges.append(n.value)
        # or collected into a result list:  finals.append(parallel_merging(arr, ...))
        collected = None
        for name, v, n in aps:
            if isinstance(v, ast.Call) and dotted(v.func) == "parallel_merging" and v.args and isinstance(v.args[0], ast.Name) and v.args[0].id == arr:
                collected = name
                raw = n.args[0]
                if isinstance(raw, ast.Name) and raw.id == fin:
                    continue          # the already counted `fin = parallel_merging(arr, ...)` appended under its name
                merges.append(v)
        merges = list({id(x): x for x in merges}.values())      # `f = parallel_merging(a); out.append(f)` names one merge twice
        roles[tag] = {"array": arr, "final": fin, "args": "%s_args" % tag, "appends": ap_nodes, "merges": merges, "collected": collected}
    return roles


def rule_joinfirst(ctx):
    pa = ctx.model.func(H, "parallel_add")
    wk = ctx.model.func(H, "_worker")
    ctx.analysed_funcs.add(pa.key)
    body = pa.body()
    wl = workers_list(pa, wk)
    joins = []
    for i, s in enumerate(body):
        if isinstance(s, ast.For) and isinstance(s.iter, ast.Name) and s.iter.id == wl and isinstance(s.target, ast.Name):
            js = [c for c in calls_in(s) if isinstance(c.func, ast.Attribute) and c.func.attr == "join" and dotted(c.func.value) == s.target.id]
            direct = [st for st in s.body if isinstance(st, ast.Expr) and isinstance(st.value, ast.Call) and st.value in js]
            if direct:
                joins.append(i)
    merges = [(i, c) for i, s in enumerate(body) for c in calls_in(s) if dotted(c.func) == "parallel_merging"]
    okk = bool(joins) and bool(merges) and min(joins) < min(i for i, _ in merges)
    st_, why_ = (True, "") if okk else (_absent(pa, "no loop joining every worker precedes the first merge") if not joins else
                                       (False, "no loop joining every worker precedes the first merge"))
    ctx.ob("joinfirst", pa, body[joins[0]] if joins else pa.node, "for p in workers: p.join()  before  parallel_merging(...)",
           "every worker has finished before any of its sketches is merged", st_, why_)
    # the descriptors handed to a worker are in the documented order (alphabetical: cms, hh, hll) -- the callback receives its
    # sketches positionally in exactly that order
    F = facts_of(ctx)
    w = F.walk(pa)
    order = {"cms": 0, "hh": 1, "hll": 2}

    def tag_of(ev):
        a = ev.args[0] if ev.args else None
        if isinstance(a, Tup) and len(a.items) == 3 and isinstance(a.items[0], Opaque) and isinstance(a.items[0].desc, tuple) \
                and len(a.items[0].desc) == 2 and a.items[0].desc[0] == "const" and a.items[0].desc[1] in order:
            return a.items[0].desc[1]
        return None
    descs = [e for e in w.events if e.kind == "call" and isinstance(e.node, ast.Call) and isinstance(e.node.func, ast.Attribute)
             and e.node.func.attr == "append" and tag_of(e) is not None and e.loops]
    res = []
    for le in [x for x in w.events if x.kind == "loopend" and any(d.loops[0] is x.loop for d in descs)]:
        seq = [tag_of(d) for d in on_path(w.events, le) if d in descs and d.loops[0] is le.loop]
        okk = seq == sorted(set(seq), key=lambda t: order[t])
        res.append((okk, "descriptors appended in the order %s" % seq if okk else
                    "a worker's descriptors are built in the order %s, not alphabetically (cms, hh, hll): the callback receives its sketches in other positions than documented" % seq,
                    fact_strs(le)))
    agg(ctx, "joinfirst", pa, descs[0].node if descs else pa.node, "sketch.append((tag, args, shm name)) in the worker start loop",
        "each worker (and so the callback) receives its sketches in the documented alphabetical order cms, hh, hll",
        res or [(None, "no literal (tag, args, block name) descriptors are appended in the worker start loop: the way the workers get "
                       "their sketches is not read", [])])
    # every sketch created for a worker is handed to it: on each way through one iteration of the start loop the descriptors built are
    # exactly those of the sketches created on that way, and a descriptor names the block of the array of its own tag
    fac_tag = {"CountMin": "cms", "HeavyHitters": "hh", "HyperLogLog": "hll"}
    roles0 = sketch_roles(pa)
    res = []
    for le in [x for x in w.events if x.kind == "loopend" and any(d.loops[0] is x.loop for d in descs)]:
        onp = [x for x in on_path(w.events, le) if x.loops and x.loops[0] is le.loop]
        made = sorted(fac_tag[c.name] for c in onp if c.kind == "call" and c.name in fac_tag)
        seq = sorted(tag_of(d) for d in onp if d in descs)
        okk = made == seq
        res.append((okk, "descriptors %s for created sketches %s" % (seq, made) if okk else
                    "a worker for which the sketches %s are created receives the descriptors %s: a requested sketch is never filled (or filled twice)" % (made, seq),
                    fact_strs(le)))
    agg(ctx, "joinfirst", pa, descs[0].node if descs else pa.node, "one descriptor per sketch created for the worker",
        "every sketch created for a worker is handed to that worker exactly once", res or [(None, "no descriptors read", [])])
    for d in {id(d.node): d for d in descs}.values():
        t = tag_of(d)
        arr = roles0[t]["array"]
        a0 = d.node.args[0] if d.node.args else None
        el = a0.elts[1:] if isinstance(a0, ast.Tuple) and len(a0.elts) == 3 else ([a0] if a0 is not None else [])
        names = [{n.id for n in ast.walk(x) if isinstance(n, ast.Name)} for x in el]
        # a local that is itself appended to an array stands for that array's element (`x = F(...); arr.append(x); (tag, x.args, x.shm.name)`)
        alias = {}
        for an, _av, cn in _appends(pa):
            if isinstance(cn.args[0], ast.Name):
                alias.setdefault(cn.args[0].id, set()).add(an)
        # ... and a local bound once to an element of an array stands for that array (`x = arr[-1]; (tag, x.args, x.shm.name)`)
        for st_ in walk_no_nested(pa.node):
            if isinstance(st_, ast.Assign) and len(st_.targets) == 1 and isinstance(st_.targets[0], ast.Name) and isinstance(st_.value, ast.Subscript) \
                    and isinstance(st_.value.value, ast.Name):
                nm_ = st_.targets[0].id
                if sum(1 for x in walk_no_nested(pa.node) if isinstance(x, ast.Name) and x.id == nm_ and isinstance(x.ctx, ast.Store)) == 1:
                    alias.setdefault(nm_, set()).add(st_.value.value.id)
        def arrays_of(ns):
            out = set()
            for nm in ns:
                if nm in {roles0[o]["array"] for o in roles0}:
                    out.add(nm)
                out |= {a for a in alias.get(nm, ()) if a in {roles0[o]["array"] for o in roles0}}
            return out
        okk = bool(arr) and bool(names) and all(arrays_of(ns) == {arr} for ns in names)
        ctx.ob("joinfirst", pa, d.node, src(pa, d.node, 70), "the descriptor tagged '%s' carries the arguments and the block name of %s[i]" % (t, arr), okk,
               "" if okk else "the descriptor tagged '%s' does not name %s only: the worker attaches another sketch's memory under this tag" % (t, arr))
    # each X_array is merged into X_final and X_array holds the sketches created for the workers
    roles = sketch_roles(pa)
    for tag, fac in (("cms", "CountMin"), ("hh", "HeavyHitters"), ("hll", "HyperLogLog")):
        arr, fin = roles[tag]["array"], roles[tag]["final"]
        m = roles[tag]["merges"]
        if arr is None or not m:
            # parallel_merging is called, but not on a list the analysis can tie to this factory (e.g. a dict of lists filled by a
            # helper): not read -- undecided; no merge call at all: the per-worker sketches are never merged
            ctx.ob("joinfirst", pa, pa.node, "%s sketches" % tag, "per-worker %s sketches are created and merged" % tag, None if merges else False,
                   "no list of %s(...) sketches merged by parallel_merging%s" % (fac, " is read from this shape" if merges else ""))
            continue
        ap = roles[tag]["appends"]
        shm = bool(ap) and any(k.arg == "shared_memory" and isinstance(k.value, ast.Constant) and k.value.value is True for k in ap[0][1].keywords)
        okk = len(m) == 1 and len(ap) == 1 and shm
        ctx.ob("joinfirst", pa, m[0] if m else pa.node, "%s = parallel_merging(%s, ...)" % (fin or roles[tag]["collected"], arr),
               "the per-worker %s sketches (shared memory) are exactly what is merged into the result" % tag, okk)


def _truth(node, env):
    """Evaluate a boolean expression over names (True/False from env); None if not understood."""
    if isinstance(node, ast.Name):
        return env.get(node.id)
    if isinstance(node, ast.BoolOp):
        vals = [_truth(v, env) for v in node.values]
        if None in vals:
            return None
        return all(vals) if isinstance(node.op, ast.And) else any(vals)
    if isinstance(node, ast.UnaryOp) and isinstance(node.op, ast.Not):
        v = _truth(node.operand, env)
        return None if v is None else (not v)
    if isinstance(node, ast.Compare) and len(node.ops) == 1 and isinstance(node.left, ast.Name) and isinstance(node.comparators[0], ast.Constant) \
            and node.comparators[0].value is None:
        v = env.get(node.left.id)
        if v is None:
            return None
        return (not v) if isinstance(node.ops[0], ast.Is) else v if isinstance(node.ops[0], ast.IsNot) else None
    return None


class _TailInterp:
    """Evaluates the tail of parallel_add (after the workers were joined) for one combination of requested sketches.  Built on the
    statement/expression evaluator of the merge-tree interpreter: lists, tuples, len, if/elif chains and returns are exact, every
    other call is an unknown value, and parallel_merging(<array of tag t>, ...) yields the token ("final", t)."""

    def __init__(self, pa, roles, combo):
        self.inner = MergeTreeInterp(pa, (0, 1), 0)
        self.inner.call = self.call            # route calls through this object
        self._base_call = MergeTreeInterp.call
        self.env = {}
        for t in ("cms", "hh", "hll"):
            self.env["%s_args" % t] = {"requested": True} if t in combo else None
            arr = roles[t]["array"]
            if arr:
                self.env[arr] = [("worker-sketch", t)] if t in combo else []
        self.roles = roles

    def call(self, e, env):
        d = dotted(e.func)
        if d == "parallel_merging" and e.args:
            v = self.inner.ev(e.args[0], env)
            if isinstance(v, list) and v and isinstance(v[0], tuple) and v[0][0] == "worker-sketch":
                return ("final", v[0][1])
            if isinstance(v, list):
                raise MTViolation("parallel_merging is applied to `%s`, which holds no sketches of a requested type" % unparse(e.args[0]))
            # not one of the per-worker lists the analysis tracks by name (a dict of lists, a helper's result): not read
            raise MTUndecided("parallel_merging is applied to `%s`, a value the analysis does not track" % unparse(e.args[0]))
        if d == "tuple" and len(e.args) == 1:
            v = self.inner.ev(e.args[0], env)
            return tuple(v) if isinstance(v, (list, tuple)) else UNK
        if d == "list" and len(e.args) == 1:
            v = self.inner.ev(e.args[0], env)
            return list(v) if isinstance(v, (list, tuple)) else UNK
        return self._base_call(self.inner, e, env)

    def run(self, stmts):
        r = self.inner.block(stmts, self.env)
        if r is None:
            return ("ret", None)
        return r


def rule_rettable(ctx):
    pa = ctx.model.func(H, "parallel_add")
    wk = ctx.model.func(H, "_worker")
    body = pa.body()
    roles = sketch_roles(pa)
    wl = workers_list(pa, wk)
    # the tail: everything after the loop that joins the workers
    start = None
    for i, s_ in enumerate(body):
        if isinstance(s_, ast.For) and isinstance(s_.iter, ast.Name) and s_.iter.id == wl and \
                any(_is_proc_join(c) for c in calls_in(s_)):
            start = i + 1
    if start is None:
        ctx.ob("rettable", pa, pa.node, "return table", "the tail of parallel_add (after the workers were joined) is identifiable", None,
               "no loop joining the workers found")
        return
    tags = ["cms", "hh", "hll"]
    import itertools
    for r in range(1, 4):
        for sub in itertools.combinations(tags, r):
            want = tuple(("final", t) for t in sub)
            want = want[0] if len(want) == 1 else want
            label = "{%s}" % ",".join(sub)
            try:
                res = _TailInterp(pa, roles, sub).run(body[start:])
            except MTUndecided as u:
                ctx.ob("rettable", pa, pa.node, label, "the return value for this combination of requested sketches is computable", None, str(u))
                continue
            except MTViolation as v:
                ctx.ob("rettable", pa, pa.node, label, "the sketches requested are returned, in alphabetical order (cms, hh, hll)", False, str(v))
                continue
            got = res[1] if res and res[0] == "ret" else None

            def show(v):
                if isinstance(v, tuple) and v and v[0] == "final":
                    return "merged %s" % v[1]
                if isinstance(v, (tuple, list)):
                    return "(%s)" % ", ".join(show(x) for x in v)
                return repr(v)
            okk = got == want
            ctx.ob("rettable", pa, pa.node, "%s -> %s" % (label, show(got)), "the sketches requested are returned, in alphabetical order (cms, hh, hll)", okk,
                   "" if okk else "expected %s" % show(want))


GENERATOR_ANNOTATIONS = ("Iterable", "Iterator", "Generator")


def rule_spawn_pickle(ctx):
    for fname in ("parallel_add", "parallel_merging"):
        f = ctx.model.func(H, fname)
        ctxs = [n for n in walk_no_nested(f.node) if isinstance(n, ast.Call) and dotted(n.func) == "get_context" and n.args
                and isinstance(n.args[0], ast.Constant)]
        method = ctxs[0].args[0].value if ctxs else None
        for call, tgt, args, kwargs in _process_calls(f):
            if method != "spawn" or not isinstance(args, ast.Tuple):
                ctx.ob("spawn-pickle", f, call, "Process(target=%s)" % tgt, "process arguments readable (spawn context)", None if method == "spawn" else True)
                continue
            for a in args.elts:
                if not isinstance(a, ast.Name) or a.id not in f.params:
                    continue
                ann = None
                for arg in f.node.args.args:
                    if arg.arg == a.id and arg.annotation is not None:
                        ann = unparse(arg.annotation)
                gen = ann is not None and any(g in ann for g in GENERATOR_ANNOTATIONS)
                ctx.ob("spawn-pickle", f, call, "Process(target=%s, args∋%s)" % (tgt, a.id),
                       "every argument of a spawned process is picklable for every value its annotation/documentation admits", not gen,
                       "" if not gen else "`%s: %s` (documented 'a generator or list') is pickled by the spawn context: generators raise TypeError" % (a.id, ann))


# ---------------------------------------------------------------------------
# mergetree (E6-ii): slot-set interpretation of parallel_merging for n = 1..N
# ---------------------------------------------------------------------------

class MTUndecided(Exception):
    pass


class MTViolation(Exception):
    pass


class Unknown:
    def __repr__(self):
        return "?"


UNK = Unknown()


class Slot:
    def __init__(self, i):
        self.members = Counter({i: 1})
        self.id = i

    def __repr__(self):
        return "Slot%d%s" % (self.id, sorted(self.members.elements()))


class SlotRef:
    def __init__(self, slot):
        self.slot = slot


class Proc:
    def __init__(self, target, args):
        self.target = target
        self.args = args
        self.started = False
        self.joined = False


class MergeTreeInterp:
    """Interprets parallel_merging's AST on a list of abstract slots.  Supports only the constructs it has exact
    semantics for; anything else raises MTUndecided."""

    def __init__(self, func, merge_worker_order, n):
        self.func = func
        self.order = merge_worker_order      # (dst_param_index, src_param_index)
        self.n = n
        self.round = []                      # procs started and not yet joined
        self.rounds = 0
        self.merged_src = set()              # slot ids that were a source in the current round
        self.steps = 0
        self.unknown_decisions = 0
        self.unknown_tests = set()
        self.policy = lambda k: True

    def run(self):
        slots = [Slot(i) for i in range(self.n)]
        self.all = slots
        env = {self.func.params[0]: list(slots)}
        for p in self.func.params[1:]:
            env[p] = UNK
        r = self.block(self.func.body(), env)
        if r is None or r[0] != "ret":
            raise MTViolation("parallel_merging does not return a sketch for n=%d" % self.n)
        if self.round:
            raise MTViolation("n=%d: the result is returned while mergers are still running (not joined)" % self.n)
        return r[1]

    # -- statements
    def block(self, stmts, env):
        for s in stmts:
            self.steps += 1
            if self.steps > 200000:
                raise MTViolation("n=%d: merge schedule does not terminate" % self.n)
            r = self.stmt(s, env)
            if r is not None:
                return r
        return None

    def stmt(self, s, env):
        if isinstance(s, ast.Expr):
            if isinstance(s.value, ast.Constant):
                return None
            self.ev(s.value, env)
            return None
        if isinstance(s, ast.Assign) and len(s.targets) == 1:
            v = self.ev(s.value, env)
            t = s.targets[0]
            if isinstance(t, ast.Name):
                env[t.id] = v
            elif isinstance(t, ast.Subscript):
                base = self.ev(t.value, env)
                i = self.ev(t.slice, env)
                if isinstance(base, list) and isinstance(i, int):
                    if not (-len(base) <= i < len(base)):
                        raise MTViolation("n=%d: index %d out of range in `%s`" % (self.n, i, unparse(s)))
                    old = base[i]
                    if v is None and isinstance(old, Slot):
                        self.drop(old, s)
                    base[i] = v
                else:
                    raise MTUndecided("store `%s`" % unparse(s))
            elif isinstance(t, (ast.Tuple, ast.List)) and isinstance(v, (tuple, list)) and len(v) == len(t.elts) \
                    and all(isinstance(x, ast.Name) for x in t.elts):
                for x, y in zip(t.elts, v):
                    env[x.id] = y
            else:
                raise MTUndecided("assignment target `%s`" % unparse(t))
            return None
        if isinstance(s, ast.AugAssign) and isinstance(s.target, ast.Name):
            env[s.target.id] = self.binop(s.op, env[s.target.id], self.ev(s.value, env))
            return None
        if isinstance(s, ast.If):
            t = self.ev(s.test, env)
            only_raise = all(isinstance(x, ast.Raise) for x in s.body)
            if isinstance(t, Unknown):
                if only_raise and not s.orelse:
                    return None          # defensive check on values outside the model
                if isinstance(s.test, ast.Call) and dotted(s.test.func) == "isinstance":
                    return self.block(s.body, env)     # type dispatch: any branch assigns the tag; take the first
                # a data-dependent decision (e.g. on a sketch's contents): resolved by the policy of this run; the schedule
                # must be right whichever way such decisions go
                self.unknown_decisions += 1
                self.unknown_tests.add(unparse(s.test, 70))
                choice = self.policy(self.unknown_decisions)
                return self.block(s.body if choice else s.orelse, env)
            return self.block(s.body if t else s.orelse, env)
        if isinstance(s, ast.While):
            while True:
                t = self.ev(s.test, env)
                if isinstance(t, Unknown):
                    raise MTUndecided("loop condition `%s`" % unparse(s.test))
                if not t:
                    break
                r = self.block(s.body, env)
                if r is not None:
                    if r[0] == "break":
                        break
                    if r[0] == "continue":
                        continue
                    return r
            return None
        if isinstance(s, ast.For):
            it = self.ev(s.iter, env)
            if isinstance(it, range):
                it = list(it)
            if not isinstance(it, list):
                raise MTUndecided("iteration over `%s`" % unparse(s.iter))
            for x in list(it):
                if isinstance(s.target, ast.Name):
                    env[s.target.id] = x
                elif isinstance(s.target, (ast.Tuple, ast.List)) and all(isinstance(t, ast.Name) for t in s.target.elts) \
                        and isinstance(x, (tuple, list)) and len(x) == len(s.target.elts):
                    for t, xv in zip(s.target.elts, x):
                        env[t.id] = xv
                else:
                    raise MTUndecided("loop target")
                r = self.block(s.body, env)
                if r is not None:
                    if r[0] == "break":
                        break
                    if r[0] == "continue":
                        continue
                    return r
            return None
        if isinstance(s, ast.Return):
            return ("ret", self.ev(s.value, env) if s.value is not None else None)
        if isinstance(s, ast.Raise):
            raise MTViolation("n=%d: `%s` reached" % (self.n, unparse(s, 60)))
        if isinstance(s, ast.Break):
            return ("break",)
        if isinstance(s, ast.Continue):
            return ("continue",)
        if isinstance(s, ast.Pass):
            return None
        if isinstance(s, ast.Delete):
            return None
        if isinstance(s, ast.Assert):
            return None          # an assertion does not change the schedule
        raise MTUndecided("statement %s" % type(s).__name__)

    def drop(self, slot, node):
        if slot.id not in self.merged_src:
            raise MTViolation("n=%d: sketch %r is discarded without having been merged into a survivor in this round" % (self.n, slot))

    # -- expressions
    def ev(self, e, env):
        if isinstance(e, ast.Constant):
            return e.value
        if isinstance(e, ast.Name):
            if e.id in env:
                return env[e.id]
            return UNK
        if isinstance(e, ast.List):
            return [self.ev(x, env) for x in e.elts]
        if isinstance(e, ast.Tuple):
            return tuple(self.ev(x, env) for x in e.elts)
        if isinstance(e, ast.JoinedStr):
            return UNK
        if isinstance(e, ast.Dict):
            return UNK
        if isinstance(e, ast.BinOp):
            return self.binop(e.op, self.ev(e.left, env), self.ev(e.right, env))
        if isinstance(e, ast.UnaryOp):
            v = self.ev(e.operand, env)
            if isinstance(v, Unknown):
                return UNK
            if isinstance(e.op, ast.Not):
                return not v
            if isinstance(e.op, ast.USub):
                return -v
        if isinstance(e, ast.BoolOp):
            vals = [self.ev(v, env) for v in e.values]
            if any(isinstance(v, Unknown) for v in vals):
                return UNK
            return all(vals) if isinstance(e.op, ast.And) else any(vals)
        if isinstance(e, ast.Compare):
            l = self.ev(e.left, env)
            out = True
            for op, c in zip(e.ops, e.comparators):
                r = self.ev(c, env)
                if isinstance(l, Unknown) or isinstance(r, Unknown):
                    return UNK
                if isinstance(op, ast.Lt):
                    ok = l < r
                elif isinstance(op, ast.LtE):
                    ok = l <= r
                elif isinstance(op, ast.Gt):
                    ok = l > r
                elif isinstance(op, ast.GtE):
                    ok = l >= r
                elif isinstance(op, ast.Eq):
                    ok = l == r
                elif isinstance(op, ast.NotEq):
                    ok = l != r
                elif isinstance(op, ast.Is):
                    ok = l is r
                elif isinstance(op, ast.IsNot):
                    ok = l is not r
                else:
                    return UNK
                out = out and ok
                l = r
            return out
        if isinstance(e, ast.Subscript):
            base = self.ev(e.value, env)
            if isinstance(e.slice, ast.Slice):
                if isinstance(base, list):
                    lo = self.ev(e.slice.lower, env) if e.slice.lower is not None else None
                    hi = self.ev(e.slice.upper, env) if e.slice.upper is not None else None
                    st = self.ev(e.slice.step, env) if e.slice.step is not None else None
                    return base[lo:hi:st]
                return UNK
            i = self.ev(e.slice, env)
            if isinstance(base, (list, tuple)) and isinstance(i, int):
                if not (-len(base) <= i < len(base)):
                    raise MTViolation("n=%d: index %d out of range in `%s`" % (self.n, i, unparse(e)))
                return base[i]
            return UNK
        if isinstance(e, ast.Attribute):
            b = self.ev(e.value, env)
            if isinstance(b, Slot):
                if e.attr == "shm":
                    return SlotRef(b)
                if e.attr == "args":
                    return "<args>"      # precondition of the call: the sketches were built with the same arguments
                return UNK
            if b is None and e.attr in ("shm", "args"):
                raise MTViolation("n=%d: a sketch that was already discarded is used again (`%s`)" % (self.n, unparse(e)))
            if isinstance(b, SlotRef):
                return b if e.attr == "name" else UNK
            if isinstance(b, Proc):
                if e.attr == "exitcode":
                    return 0
                return UNK
            return UNK
        if isinstance(e, ast.Call):
            return self.call(e, env)
        if isinstance(e, ast.ListComp) and len(e.generators) == 1 and not e.generators[0].is_async:
            g = e.generators[0]
            it = self.ev(g.iter, env)
            if isinstance(it, range):
                it = list(it)
            tgt_names = [g.target.id] if isinstance(g.target, ast.Name) else \
                [t.id for t in g.target.elts] if isinstance(g.target, (ast.Tuple, ast.List)) and all(isinstance(t, ast.Name) for t in g.target.elts) else None
            if not isinstance(it, (list, tuple)) or tgt_names is None:
                raise MTUndecided("comprehension over `%s`" % unparse(g.iter))
            out = []
            inner = dict(env)
            for x in it:
                if isinstance(g.target, ast.Name):
                    inner[g.target.id] = x
                else:
                    if not isinstance(x, (list, tuple)) or len(x) != len(tgt_names):
                        raise MTUndecided("comprehension over `%s`" % unparse(g.iter))
                    for nm_, xv in zip(tgt_names, x):
                        inner[nm_] = xv
                keep = True
                for c in g.ifs:
                    t = self.ev(c, inner)
                    if isinstance(t, Unknown):
                        raise MTUndecided("comprehension filter `%s`" % unparse(c))
                    keep = keep and bool(t)
                if keep:
                    out.append(self.ev(e.elt, inner))
            return out
        if isinstance(e, ast.IfExp):
            t = self.ev(e.test, env)
            if isinstance(t, Unknown):
                raise MTUndecided("conditional expression `%s`" % unparse(e.test))
            return self.ev(e.body if t else e.orelse, env)
        return UNK

    def binop(self, op, a, b):
        if isinstance(a, Unknown) or isinstance(b, Unknown):
            return UNK
        if isinstance(op, ast.Add):
            return a + b
        if isinstance(op, ast.Sub):
            return a - b
        if isinstance(op, ast.Mult):
            return a * b
        if isinstance(op, ast.FloorDiv):
            return a // b
        if isinstance(op, ast.Mod):
            return a % b
        if isinstance(op, ast.RShift):
            return a >> b
        if isinstance(op, ast.LShift):
            return a << b
        return UNK

    def call(self, e, env):
        d = dotted(e.func)
        if d == "isinstance" and len(e.args) == 2:
            # the sketches being merged are all of one (unknown) class: the first class a type dispatch asks about is taken to be it
            v = self.ev(e.args[0], env)
            if isinstance(v, Slot):
                cname = dotted(e.args[1]) or unparse(e.args[1])
                if getattr(self, "slot_class", None) is None:
                    self.slot_class = cname
                return cname == self.slot_class or cname.split(".")[-1] in getattr(self, "slot_ancestors", ())
            return UNK
        if d == "len":
            v = self.ev(e.args[0], env)
            return len(v) if isinstance(v, (list, tuple)) else UNK
        if d == "range":
            a = [self.ev(x, env) for x in e.args]
            if any(not isinstance(x, int) for x in a):
                raise MTUndecided("range(%s)" % ", ".join(unparse(x) for x in e.args))
            return list(range(*a))
        if d in ("list", "tuple", "enumerate", "reversed", "zip", "sorted") and not e.keywords:
            a = [self.ev(x, env) for x in e.args]
            if d != "sorted" and a and all(isinstance(x, (list, tuple)) for x in a):
                if d == "list" and len(a) == 1:
                    return list(a[0])
                if d == "tuple" and len(a) == 1:
                    return tuple(a[0])
                if d == "reversed" and len(a) == 1:
                    return list(reversed(a[0]))
                if d == "zip":
                    return [tuple(t) for t in zip(*a)]
                if d == "enumerate" and len(a) == 1:
                    return [(i, x) for i, x in enumerate(a[0])]
            if d == "enumerate" and len(a) == 2 and isinstance(a[0], (list, tuple)) and isinstance(a[1], int):
                return [(i, x) for i, x in enumerate(a[0], a[1])]
            raise MTUndecided("builtin %s" % d)
        if d in ("min", "max", "abs", "int") and not e.keywords and e.args:
            a = [self.ev(x, env) for x in e.args]
            if all(isinstance(x, int) and not isinstance(x, bool) for x in a):
                if d == "min":
                    return min(a)
                if d == "max":
                    return max(a)
                if len(a) == 1:
                    return abs(a[0]) if d == "abs" else a[0]
            if len(a) == 1 and isinstance(a[0], (list, tuple)) and a[0] and all(isinstance(x, int) for x in a[0]) and d in ("min", "max"):
                return min(a[0]) if d == "min" else max(a[0])
            return UNK
        if isinstance(e.func, ast.Attribute):
            recv = self.ev(e.func.value, env)
            m = e.func.attr
            if m == "Process":
                kw = {k.arg: k.value for k in e.keywords}
                tgt = kw.get("target")
                args = self.ev(kw["args"], env) if "args" in kw else ()
                return Proc(tgt.id if isinstance(tgt, ast.Name) else None, args)
            if isinstance(recv, list) and m == "append":
                recv.append(self.ev(e.args[0], env))
                return None
            if isinstance(recv, list) and m == "pop":
                return recv.pop(*[self.ev(a, env) for a in e.args])
            if isinstance(recv, Proc) and m == "start":
                self.start(recv)
                return None
            if isinstance(recv, Proc) and m == "join":
                self.join(recv)
                return None
            return UNK        # logging, gc.collect, get_context ...
        return UNK

    def slots_of(self, p):
        out = []
        for a in p.args:
            ref = None
            if isinstance(a, tuple):
                for x in a:
                    if isinstance(x, SlotRef):
                        ref = x.slot
            elif isinstance(a, SlotRef):
                ref = a.slot
            out.append(ref)
        return out

    def start(self, p):
        if p.started:
            raise MTViolation("n=%d: a merger is started twice" % self.n)
        p.started = True
        sl = self.slots_of(p)
        if len(sl) != 2 or None in sl:
            raise MTUndecided("merger arguments are not two sketch descriptors")
        busy = set()
        for q in self.round:
            for s in self.slots_of(q):
                busy.add(s.id)
        if sl[0].id == sl[1].id:
            raise MTViolation("n=%d: a sketch is merged with itself (%r)" % (self.n, sl[0]))
        for s in sl:
            if s.id in busy:
                raise MTViolation("n=%d: %r is used by two concurrent mergers of one round (data race on a shared block)" % (self.n, s))
        self.round.append(p)

    def join(self, p):
        if not p.started:
            raise MTViolation("n=%d: join of a merger that was never started" % self.n)
        if p.joined:
            return
        p.joined = True
        # all mergers of a round run concurrently; apply when joined
        sl = self.slots_of(p)
        dst, srcs = sl[self.order[0]], sl[self.order[1]]
        dst.members.update(srcs.members)
        self.merged_src.add(srcs.id)
        self.round.remove(p)
        if not self.round:
            self.rounds += 1


def merge_worker_order(ctx):
    """(dst index, src index) of _merge_worker's two descriptor parameters: sX = attach(*sketchX); s_dst.merge(s_src)."""
    mw = ctx.model.func(H, "_merge_worker")
    ctx.analysed_funcs.add(mw.key)
    att = {}
    for n in walk_no_nested(mw.node):
        if isinstance(n, ast.Assign) and isinstance(n.targets[0], ast.Name) and isinstance(n.value, ast.Call) and dotted(n.value.func) == "attach_shared_memory" \
                and n.value.args and isinstance(n.value.args[0], ast.Starred) and isinstance(n.value.args[0].value, ast.Name):
            att[n.targets[0].id] = n.value.args[0].value.id
    merges = [n for n in walk_no_nested(mw.node) if isinstance(n, ast.Call) and isinstance(n.func, ast.Attribute) and n.func.attr == "merge"]
    if len(merges) != 1 or len(merges[0].args) != 1:
        return mw, None
    dst, srcv = dotted(merges[0].func.value), dotted(merges[0].args[0])
    if dst in att and srcv in att and att[dst] in mw.params and att[srcv] in mw.params:
        return mw, (mw.params.index(att[dst]), mw.params.index(att[srcv]))
    return mw, None


def rule_mergetree(ctx, nmax=None):
    pm = ctx.model.func(H, "parallel_merging")
    ctx.analysed_funcs.add(pm.key)
    mw, order = merge_worker_order(ctx)
    ctx.ob("mergetree", mw, mw.node, "_merge_worker: s1 = attach(*sketch1); s2 = attach(*sketch2); s1.merge(s2)",
           "a merger merges its second descriptor into its first", order == (0, 1) or order == (1, 0),
           "" if order else "merge direction not identified")
    if order is None:
        return
    # the Process args order in parallel_merging is interpreted through `order`
    nmax = nmax or (1024 if ctx.tier == "thorough" else 64)
    fails, und = [], []
    rounds_seen = {}
    policies = [("always true", lambda k: True), ("always false", lambda k: False), ("alternating", lambda k: k % 2 == 0),
                ("alternating'", lambda k: k % 2 == 1), ("every third", lambda k: k % 3 == 0)]
    unknown_tests = set()
    # the sketches of one call are all of one class; the schedule is interpreted once per class the function's type dispatch
    # asks about (a subclass answers for its ancestors too), so every dispatch arm is interpreted
    asked = []
    for c in walk_no_nested(pm.node):
        if isinstance(c, ast.Call) and dotted(c.func) == "isinstance" and len(c.args) == 2:
            for t in (c.args[1].elts if isinstance(c.args[1], ast.Tuple) else [c.args[1]]):
                nm = dotted(t)
                if nm and nm not in asked:
                    asked.append(nm)
    by_name = {}
    for m in ctx.model.modules.values():
        for cl in m.classes.values():
            by_name.setdefault(cl.name, cl)
    runs = []
    for nm in asked or [None]:
        cl = by_name.get(nm.split(".")[-1]) if nm else None
        anc = tuple(c.name for c in cl.mro()[1:]) if cl is not None else ()
        # a class asked about only after one of its ancestors takes the ancestor's arm: same schedule, skip
        runs.append((nm, anc))
    for n, (cname, anc) in [(n, r) for n in range(1, nmax + 1) for r in (runs if n <= 16 else runs[:1])]:
        if und:
            break
        for pi, (pname, pol) in enumerate(policies):
            it = MergeTreeInterp(pm, order, n)
            it.policy = pol
            if cname is not None:
                it.slot_class = cname
                it.slot_ancestors = anc
            try:
                res = it.run()
            except MTUndecided as u:
                und.append((n, str(u)))
                break
            except MTViolation as v:
                fails.append((n, ("[%s sketches] " % cname if cname else "") + str(v) + ((" (data-dependent decisions `%s` resolved %s)" % ("`, `".join(sorted(it.unknown_tests)), pname)) if it.unknown_decisions else "")))
                break
            unknown_tests |= it.unknown_tests
            if not isinstance(res, Slot):
                fails.append((n, "n=%d: returns %r, not a sketch" % (n, res)))
                break
            want = Counter({i: 1 for i in range(n)})
            if res.members != want:
                missing = sorted(set(want) - set(res.members))
                dup = sorted(k for k, v in res.members.items() if v > 1)
                fails.append((n, "n=%d: the returned sketch lacks worker sketches %s%s%s" % (
                    n, missing[:6], (" and counts %s twice" % dup[:6]) if dup else "",
                    (" when the data-dependent decisions `%s` are resolved %s" % ("`, `".join(sorted(it.unknown_tests)), pname)) if it.unknown_decisions else "")))
                break
            rounds_seen[n] = it.rounds
            if not it.unknown_decisions:
                break          # no data-dependent decision: one run decides this n
    if und:
        ctx.ob("mergetree", pm, pm.node, "parallel_merging schedule", "merge schedule interpretable", None, "n=%d: %s" % und[0])
        return
    if unknown_tests and not fails:
        ctx.ob("mergetree", pm, pm.node, "parallel_merging: data-dependent decisions %s" % sorted(unknown_tests),
               "the schedule is decided for every resolution of its data-dependent decisions", None,
               "5 resolution policies were explored without a violation, which is not all of them")
    ctx.ob("mergetree", pm, pm.node, "parallel_merging schedule for n = 1..%d" % nmax,
           "for every worker count the pairwise rounds use disjoint sketches, discard only merged sources, terminate, and return one "
           "sketch holding every worker's sketch exactly once", not fails,
           "" if not fails else "; ".join(f[1] for f in fails[:3]))
    ctx.note("mergetree: %d worker counts interpreted, rounds needed e.g. %s" % (len(rounds_seen), {k: rounds_seen[k] for k in list(rounds_seen)[:9]}))
    # mergers are joined before survivors are chosen; failure of a merger is an error
    joins = [n for n in walk_no_nested(pm.node) if _is_proc_join(n)]
    ctx.ob("mergetree", pm, joins[0] if joins else pm.node, "p.join() for every merger of a round", "a round's mergers are joined before the next round pairs their results", bool(joins))


# ---------------------------------------------------------------------------
# C19 dead-detect / dead-cleanup / dead-raise
# ---------------------------------------------------------------------------

def _monitor(ctx):
    pa = ctx.model.func(H, "parallel_add")
    wk = ctx.model.func(H, "_worker")
    body = pa.body()
    wl = workers_list(pa, wk)
    # the monitor: a top-level loop (while/for) containing `.exitcode` tests, located after the worker start loop
    mon = None
    for s in body:
        if isinstance(s, (ast.While, ast.For)) and any(isinstance(n, ast.Attribute) and n.attr == "exitcode" for n in ast.walk(s)):
            if any(isinstance(n, ast.Name) and n.id == wl for n in ast.walk(s)):
                mon = s
    if mon is not None:
        # `code = p.exitcode` read once into a local: the tests on `code` are tests on p.exitcode
        al = {}
        cnt = {}
        # (a comprehension has a scope of its own: `any(code is None for code in seen)` does not rebind the loop's `code`)
        in_comp = {id(x) for c_ in ast.walk(mon) if isinstance(c_, (ast.ListComp, ast.SetComp, ast.DictComp, ast.GeneratorExp)) for x in ast.walk(c_)}
        for n in ast.walk(mon):
            if isinstance(n, ast.Name) and isinstance(n.ctx, ast.Store) and id(n) not in in_comp:
                cnt[n.id] = cnt.get(n.id, 0) + 1
        for n in ast.walk(mon):
            if isinstance(n, ast.Assign) and len(n.targets) == 1 and isinstance(n.targets[0], ast.Name) and isinstance(n.value, ast.Attribute) \
                    and n.value.attr == "exitcode" and cnt.get(n.targets[0].id) == 1:
                al[n.targets[0].id] = n.value
        if al:
            mon = copy.deepcopy(mon)

            class T(ast.NodeTransformer):
                def visit_Name(self, n):
                    if isinstance(n.ctx, ast.Load) and n.id in al:
                        return ast.copy_location(copy.deepcopy(al[n.id]), n)
                    return n

                def visit_GeneratorExp(self, n):
                    return n

                visit_ListComp = visit_SetComp = visit_DictComp = visit_GeneratorExp
            mon = T().visit(mon)
    return pa, wl, mon


def _iterates_whole_list(it, name):
    """`name`, `name + [...]`, `[...] + name`, `list(name)`, `tuple(name)`: every element of the list is visited."""
    if isinstance(it, ast.Name):
        return it.id == name
    if isinstance(it, ast.BinOp) and isinstance(it.op, ast.Add):
        return _iterates_whole_list(it.left, name) or _iterates_whole_list(it.right, name)
    if isinstance(it, ast.Call) and isinstance(it.func, ast.Name) and it.func.id in ("list", "tuple", "reversed", "sorted") and len(it.args) == 1:
        return _iterates_whole_list(it.args[0], name)
    return False


def _exitcode_var(test):
    for n in ast.walk(test):
        if isinstance(n, ast.Attribute) and n.attr == "exitcode":
            return dotted(n.value)
    return None


def _is_failure_test(test, under_not_none):
    """True if `test` holds for every non-zero exit code (given the code is not None when under_not_none)."""
    def nonzero(t):
        if isinstance(t, ast.Compare) and len(t.ops) == 1 and isinstance(t.comparators[0], ast.Attribute) and t.comparators[0].attr == "exitcode" \
                and not (isinstance(t.left, ast.Attribute) and t.left.attr == "exitcode"):
            # constant on the left: read `c op x` as `x op' c`
            flip = {ast.Lt: ast.Gt, ast.Gt: ast.Lt, ast.LtE: ast.GtE, ast.GtE: ast.LtE, ast.Eq: ast.Eq, ast.NotEq: ast.NotEq}.get(type(t.ops[0]))
            if flip is not None:
                t = ast.copy_location(ast.Compare(left=t.comparators[0], ops=[flip()], comparators=[t.left]), t)
        if isinstance(t, ast.Compare) and len(t.ops) == 1 and isinstance(t.left, ast.Attribute) and t.left.attr == "exitcode":
            c = const_int(t.comparators[0])
            if isinstance(t.ops[0], ast.NotEq) and c == 0:
                return {"neg", "pos"}
            if isinstance(t.ops[0], ast.Lt) and c == 0:
                return {"neg"}
            if isinstance(t.ops[0], ast.Gt) and c == 0:
                return {"pos"}
            if isinstance(t.ops[0], ast.GtE) and c == 1:
                return {"pos"}
            if isinstance(t.ops[0], ast.LtE) and c == -1:
                return {"neg"}
            return set()
        if isinstance(t, ast.UnaryOp) and isinstance(t.op, ast.Not) and isinstance(t.operand, ast.Compare):
            o = t.operand
            if len(o.ops) == 1 and isinstance(o.ops[0], ast.Eq) and const_int(o.comparators[0]) == 0 and isinstance(o.left, ast.Attribute) and o.left.attr == "exitcode":
                return {"neg", "pos"}
            return set()
        if isinstance(t, ast.BoolOp) and isinstance(t.op, ast.Or):
            out = set()
            for v in t.values:
                out |= nonzero(v)
            return out
        if isinstance(t, ast.BoolOp) and isinstance(t.op, ast.And):
            # (code is not None) and (code != 0)
            outs = [nonzero(v) for v in t.values if not _is_not_none(v)]
            return set.intersection(*outs) if outs else set()
        if isinstance(t, ast.Attribute) and t.attr == "exitcode" and under_not_none:
            return {"neg", "pos"}      # truthiness of a non-None int
        return set()
    return nonzero(test) == {"neg", "pos"}


def _is_not_none(t):
    return isinstance(t, ast.Compare) and len(t.ops) == 1 and isinstance(t.ops[0], ast.IsNot) and isinstance(t.comparators[0], ast.Constant) \
        and t.comparators[0].value is None


def _failure_branches(mon):
    """[(if-node, body)] whose body kills/terminates/raises, with the chain of tests leading to it."""
    out = []
    # `code = p.exitcode` (the only store to `code` in the monitor): tests on `code` are tests on the exit code
    stores, alias = {}, {}
    for n in ast.walk(mon):
        if isinstance(n, ast.Name) and isinstance(n.ctx, (ast.Store, ast.Del)):
            stores[n.id] = stores.get(n.id, 0) + 1
    for n in ast.walk(mon):
        if isinstance(n, ast.Assign) and len(n.targets) == 1 and isinstance(n.targets[0], ast.Name) and stores.get(n.targets[0].id) == 1 \
                and isinstance(n.value, ast.Attribute) and n.value.attr == "exitcode":
            alias[n.targets[0].id] = n.value

    class _A(ast.NodeTransformer):
        def visit_Name(self, x):
            if isinstance(x.ctx, ast.Load) and x.id in alias:
                return ast.copy_location(copy.deepcopy(alias[x.id]), x)
            return x

    def visit(stmts, not_none):
        for s in stmts:
            if isinstance(s, ast.If):
                # `if not c: A else: B` is read as `if c: B else: A`
                test, body, orelse = (_A().visit(copy.deepcopy(s.test)) if alias else s.test), s.body, s.orelse
                while isinstance(test, ast.UnaryOp) and isinstance(test.op, ast.Not):
                    test, body, orelse = test.operand, orelse, body
                if isinstance(test, ast.BoolOp) and isinstance(test.op, ast.And) and len(test.values) >= 2 and _is_not_none(test.values[0]) and not orelse:
                    # `if c is not None and <rest>: BODY`  ==  `if c is not None: if <rest>: BODY`
                    rest = test.values[1] if len(test.values) == 2 else ast.copy_location(ast.BoolOp(op=ast.And(), values=test.values[1:]), test)
                    inner = ast.copy_location(ast.If(test=rest, body=body, orelse=[]), s)
                    visit([inner], True)
                    continue
                has_ec = any(isinstance(n, ast.Attribute) and n.attr == "exitcode" for n in ast.walk(test))
                is_none = isinstance(test, ast.Compare) and len(test.ops) == 1 and isinstance(test.ops[0], ast.Is) \
                    and isinstance(test.comparators[0], ast.Constant) and test.comparators[0].value is None and has_ec
                is_nn = _is_not_none(test)
                for tst, bd, negated in ((test, body, False), (test, orelse, True)):
                    acts = [n for st in bd for n in ast.walk(st) if (isinstance(n, ast.Call) and isinstance(n.func, ast.Attribute) and n.func.attr in ("kill", "terminate"))
                            or isinstance(n, ast.Raise)]
                    direct = [st for st in bd if not isinstance(st, ast.If)]
                    acts_direct = [n for st in direct for n in ast.walk(st) if (isinstance(n, ast.Call) and isinstance(n.func, ast.Attribute) and n.func.attr in ("kill", "terminate"))
                                   or isinstance(n, ast.Raise)]
                    if has_ec and acts_direct and not negated and not is_none and not is_nn:
                        node = copy.copy(s)
                        node.test = test
                        out.append((node, bd, not_none))
                    elif has_ec and acts_direct and negated and isinstance(test, ast.Compare) and len(test.ops) == 1 and isinstance(test.ops[0], ast.Eq) \
                            and const_int(test.comparators[0]) == 0:
                        # else-arm of `if code == 0`
                        node = copy.copy(s)
                        node.test = ast.copy_location(ast.Compare(left=test.left, ops=[ast.NotEq()], comparators=test.comparators), test)
                        out.append((node, bd, not_none))
                visit(body, not_none or is_nn)
                visit(orelse, not_none or is_none)
            elif isinstance(s, (ast.For, ast.While, ast.With, ast.Try)):
                visit(s.body, not_none)
                visit(getattr(s, "orelse", []) or [], not_none)
    visit(mon.body, False)
    return out


def rule_dead(ctx):
    pa, wl, mon = _monitor(ctx)
    ctx.analysed_funcs.add(pa.key)
    if mon is None or wl is None:
        st_, why_ = _absent(pa, "no loop over the workers inspecting .exitcode: a dead worker goes unnoticed")
        ctx.ob("dead-detect", pa, pa.node, "worker monitor", "parallel_add watches its workers' exit codes", st_, why_)
        return
    # every worker inspected: a for over the whole worker list inside the monitor
    fors = [n for n in ast.walk(mon) if isinstance(n, ast.For) and wl in {x.id for x in ast.walk(n.iter) if isinstance(x, ast.Name)}
            and any(isinstance(x, ast.Attribute) and x.attr == "exitcode" for x in ast.walk(n))]
    whole = False
    for f in fors:
        it = f.iter
        if (isinstance(it, ast.Name) and it.id == wl) or (isinstance(it, ast.Call) and dotted(it.func) == "enumerate" and len(it.args) == 1
                                                          and isinstance(it.args[0], ast.Name) and it.args[0].id == wl):
            whole = True
    ctx.ob("dead-detect", pa, fors[0] if fors else mon, "for p in workers: p.exitcode", "the exit code of every started worker is inspected", whole,
           "" if whole else "the monitor does not iterate over the whole worker list")
    fb = _failure_branches(mon)
    if not fb:
        ctx.ob("dead-detect", pa, mon, "failure branch", "a non-zero exit code is treated as failure", False, "no branch reacts to a bad exit code")
        return
    for node, body, not_none in fb:
        nn = not_none or (isinstance(node.test, ast.BoolOp) and isinstance(node.test.op, ast.And) and any(_is_not_none(v) for v in node.test.values))
        okk = _is_failure_test(node.test, nn) and nn
        not_none = nn
        ctx.ob("dead-detect", pa, node, "elif %s" % unparse(node.test, 60),
               "every non-zero, non-None exit code counts as failure (os._exit(1) and signals alike)", okk,
               "" if okk else ("test `%s` misses some non-zero exit codes" % unparse(node.test) if not_none else "exit code may still be None on this branch"))
        # ---- dead-cleanup
        kills_workers = False
        for n in body:
            for f in ast.walk(n):
                if isinstance(f, ast.For) and _iterates_whole_list(f.iter, wl) and isinstance(f.target, ast.Name):
                    if any(isinstance(c, ast.Call) and isinstance(c.func, ast.Attribute) and c.func.attr in ("kill", "terminate")
                           and dotted(c.func.value) == f.target.id for c in ast.walk(f)):
                        kills_workers = True
        ctx.ob("dead-cleanup", pa, node, "for worker in workers: worker.kill()", "all workers are stopped when one died (a healthy one would wait for items forever)", kills_workers)
        # filler process
        fq = ctx.model.func(H, "_fill_queue")
        fillvar = None
        for n in walk_no_nested(pa.node):
            if isinstance(n, ast.Assign) and isinstance(n.value, ast.Call) and isinstance(n.value.func, ast.Attribute) and n.value.func.attr == "Process":
                kw = {k.arg: k.value for k in n.value.keywords}
                if isinstance(kw.get("target"), ast.Name) and kw["target"].id == fq.name and isinstance(n.targets[0], ast.Name):
                    fillvar = n.targets[0].id
        def _guards(stmts, target, acc=()):
            """Tests (with polarity) of the ifs enclosing `target` inside stmts, or None when it is not there."""
            for st in stmts:
                if any(x is target for x in ast.walk(st)):
                    if isinstance(st, ast.If):
                        if any(x is target for b in st.body for x in ast.walk(b)):
                            return _guards(st.body, target, acc + ((st.test, True),))
                        if any(x is target for b in st.orelse for x in ast.walk(b)):
                            return _guards(st.orelse, target, acc + ((st.test, False),))
                        return None          # inside the test itself
                    for fld in ("body", "orelse", "finalbody"):
                        sub = getattr(st, fld, None)
                        if isinstance(sub, list) and any(x is target for b in sub for x in ast.walk(b)):
                            return _guards(sub, target, acc)
                    for h in getattr(st, "handlers", []) or []:
                        if any(x is target for b in h.body for x in ast.walk(b)):
                            return None      # only after an exception
                    return acc
            return None

        def _still_running(test, pol):
            # `<filler>.exitcode is None` / `<filler>.is_alive()`: true exactly when there is something to stop
            t = test
            if isinstance(t, ast.UnaryOp) and isinstance(t.op, ast.Not):
                t, pol = t.operand, not pol
            if isinstance(t, ast.Compare) and len(t.ops) == 1 and isinstance(t.comparators[0], ast.Constant) and t.comparators[0].value is None \
                    and dotted(t.left) == "%s.exitcode" % fillvar:
                return (isinstance(t.ops[0], (ast.Is, ast.Eq)) and pol) or (isinstance(t.ops[0], (ast.IsNot, ast.NotEq)) and not pol)
            if isinstance(t, ast.Call) and dotted(t.func) == "%s.is_alive" % fillvar:
                return pol
            return False
        kcalls = [c for st in body for c in ast.walk(st) if isinstance(c, ast.Call) and isinstance(c.func, ast.Attribute)
                  and c.func.attr in ("kill", "terminate") and dotted(c.func.value) == fillvar]
        kf = False
        why = "no %s.kill()/terminate() in the failure branch" % fillvar
        for c in kcalls:
            g = _guards(body, c)
            if g is not None and all(_still_running(t, pol) for t, pol in g):
                kf = True
            elif g is not None:
                why = "%s.kill() is reached only under `%s`, which does not cover every still-running filler" % (fillvar, " and ".join(("" if pol else "not ") + unparse(t, 40) for t, pol in g))
        if not kf and not kcalls:
            # the filler put into a local list (`others.insert(0, filler)`) whose members are killed by a loop: not read
            lists_with = {dotted(c.func.value) for st in body for c in ast.walk(st) if isinstance(c, ast.Call) and isinstance(c.func, ast.Attribute)
                          and c.func.attr in ("append", "insert", "extend") and any(isinstance(x, ast.Name) and x.id == fillvar for a_ in c.args for x in ast.walk(a_))}
            lists_with |= {n.targets[0].id for st in body for n in ast.walk(st) if isinstance(n, ast.Assign) and len(n.targets) == 1 and isinstance(n.targets[0], ast.Name)
                           and isinstance(n.value, (ast.List, ast.Tuple)) and any(isinstance(e_, ast.Name) and e_.id == fillvar for e_ in n.value.elts)}
            if any(isinstance(f_, ast.For) and isinstance(f_.iter, ast.Name) and f_.iter.id in lists_with and isinstance(f_.target, ast.Name)
                   and any(isinstance(c, ast.Call) and isinstance(c.func, ast.Attribute) and c.func.attr in ("kill", "terminate")
                           and dotted(c.func.value) == f_.target.id for c in ast.walk(f_)) for st in body for f_ in ast.walk(st)):
                kf, why = None, "the processes to stop are gathered in a list and killed in a loop: shape not read"
        ctx.ob("dead-cleanup", pa, node, "%s.kill()" % fillvar, "the filler process is stopped (it would block on a full queue with no consumers, and the later join would hang)", kf,
               "" if kf else why)
        # the log process is a non-daemon child as well: left running it keeps the parent from exiting after the error
        lw = None
        try:
            lw = ctx.model.func(H, "_log_worker")
        except AnalysisError:
            lw = None
        logvar = None
        if lw is not None:
            for n in walk_no_nested(pa.node):
                if isinstance(n, ast.Assign) and isinstance(n.value, ast.Call) and isinstance(n.value.func, ast.Attribute) and n.value.func.attr == "Process":
                    kw = {k_.arg: k_.value for k_ in n.value.keywords}
                    if isinstance(kw.get("target"), ast.Name) and kw["target"].id == lw.name and isinstance(n.targets[0], ast.Name):
                        logvar = n.targets[0].id
        if logvar is not None:
            stops = [c for st in body for c in ast.walk(st) if isinstance(c, ast.Call) and isinstance(c.func, ast.Attribute)
                     and c.func.attr in ("kill", "terminate") and dotted(c.func.value) == logvar]
            okl = False
            for c in stops:
                g = _guards(body, c)
                if g is not None and all(isinstance(t, ast.AST) and (dotted(getattr(t, "left", None)) == "%s.exitcode" % logvar or
                                                                      (isinstance(t, ast.Call) and dotted(t.func) == "%s.is_alive" % logvar)) for t, _p in g):
                    okl = True
            if not okl and not stops:
                # processes collected in a local list and stopped by a loop over it (`for other in others: other.kill()`): which ones is not read
                lists_with_log = {n.targets[0].id for st in body for n in ast.walk(st) if isinstance(n, ast.Assign) and len(n.targets) == 1
                                  and isinstance(n.targets[0], ast.Name) and isinstance(n.value, (ast.List, ast.Tuple))
                                  and any(isinstance(e_, ast.Name) and e_.id == logvar for e_ in n.value.elts)}
                if any(isinstance(f_, ast.For) and isinstance(f_.iter, ast.Name) and f_.iter.id in lists_with_log and isinstance(f_.target, ast.Name)
                       and any(isinstance(c, ast.Call) and isinstance(c.func, ast.Attribute) and c.func.attr in ("kill", "terminate")
                               and dotted(c.func.value) == f_.target.id for c in ast.walk(f_)) for st in body for f_ in ast.walk(st)):
                    okl = None
            ctx.ob("dead-cleanup", pa, node, "%s.kill()" % logvar, "the log process is stopped too (a running non-daemon child keeps the interpreter from exiting)", okl,
                   "" if okl else ("the processes to stop are gathered in a list and killed in a loop: shape not read" if okl is None else
                                   "after a worker died the log process is left running: the error surfaces but the program never exits"))
        # the cleanup precedes the unconditional joins
        joins = [i for i, s in enumerate(pa.body()) if any(_is_proc_join(c) for c in ast.walk(s))
                 and not any(s is mon for _ in [0])]
        mi = _top_index(pa, mon)
        ctx.ob("dead-cleanup", pa, mon, "monitor before joins", "the monitor (and its cleanup) runs before the unconditional join() calls",
               bool(joins) and all(j > mi for j in joins if j != mi))
        # ---- dead-raise
        raises = [n for st in body for n in ast.walk(st) if isinstance(n, ast.Raise)]
        closed = {dotted(c.func.value) for st in body for c in ast.walk(st) if isinstance(c, ast.Call) and isinstance(c.func, ast.Attribute) and c.func.attr == "close"}
        how = None
        if raises:
            how = "explicit raise in the failure branch"
        else:
            # an unconditional top-level put on a queue this branch closed, after the monitor and before any return
            for i, s in enumerate(pa.body()):
                if i <= mi:
                    continue
                if any(isinstance(n, ast.Return) for n in ast.walk(s)):
                    break
                if isinstance(s, ast.Expr) and isinstance(s.value, ast.Call) and isinstance(s.value.func, ast.Attribute) and s.value.func.attr == "put" \
                        and dotted(s.value.func.value) in closed:
                    how = "unconditional %s.put(...) at line %d on a queue closed by the failure branch (Queue.put on a closed queue raises ValueError)" % (dotted(s.value.func.value), s.lineno)
                    break
        ctx.ob("dead-raise", pa, node, "failure branch => exception before any return",
               "after a worker died every path to a `return` of sketches passes through a raise", how is not None,
               "" if how else "the failure branch neither raises nor closes a queue that is unconditionally used before the return: a result lacking the dead worker's data is returned",
               proof=how or "")
        # the monitor loop terminates after a failure: the branch must not leave a worker's exit code None forever -> kill covers it
    # the loop keeps polling while any worker is running
    ctx.ob("dead-detect", pa, mon, "monitor loop `%s`" % (unparse(mon.test, 40) if isinstance(mon, ast.While) else "for"),
           "the monitor polls until no worker is running", isinstance(mon, ast.While))
    # the exit codes are inspected at least once AFTER the last worker has exited: either the loop is of the do-while kind
    # (its condition is a flag recomputed by the inspecting pass itself), or an inspection follows the loop
    final_ok, why = False, "monitor shape not understood"
    if isinstance(mon, ast.While):
        t = mon.test
        if isinstance(t, ast.Constant) and bool(t.value) is True:
            # `while True: ...inspect...; if not <flag>: break` -- the loop is left only by a break that follows the inspecting pass
            # of the same iteration and is guarded by the flag that pass computes
            brks = [n for n in mon.body if isinstance(n, ast.If) and any(isinstance(x, ast.Break) for x in n.body) and not n.orelse]
            top_fors = [f for f in fors if f in mon.body]
            other_exits = [n for n in ast.walk(mon) if isinstance(n, (ast.Break, ast.Return)) and not any(n in ast.walk(b) for b in brks)]
            if len(brks) == 1 and top_fors and not other_exits and mon.body.index(brks[0]) > mon.body.index(top_fors[-1]):
                bt = brks[0].test
                flag = bt.operand.id if isinstance(bt, ast.UnaryOp) and isinstance(bt.op, ast.Not) and isinstance(bt.operand, ast.Name) else None
                resets = [n for n in mon.body if isinstance(n, ast.Assign) and isinstance(n.targets[0], ast.Name) and n.targets[0].id == flag
                          and isinstance(n.value, ast.Constant) and n.value.value is False]
                sets = [n for f in top_fors for n in ast.walk(f) if isinstance(n, ast.Assign) and isinstance(n.targets[0], ast.Name) and n.targets[0].id == flag
                        and isinstance(n.value, ast.Constant) and n.value.value is True]
                same_for = any(is_inside(pa.node, node, f) for f in top_fors for node, _, _ in fb)
                if flag is None and isinstance(bt, ast.Compare) and len(bt.ops) == 1 and isinstance(bt.left, ast.Name) \
                        and isinstance(bt.ops[0], (ast.Eq, ast.LtE)) and const_int(bt.comparators[0]) == 0:
                    # the same thing with a counter of still-running workers: `n = 0 ... n += 1 ... if n == 0: break`
                    flag = bt.left.id
                    resets = [n for n in mon.body if isinstance(n, ast.Assign) and isinstance(n.targets[0], ast.Name) and n.targets[0].id == flag
                              and const_int(n.value) == 0]
                    def _inc1(n):
                        if isinstance(n, ast.AugAssign) and isinstance(n.op, ast.Add) and isinstance(n.target, ast.Name) and n.target.id == flag:
                            return const_int(n.value) == 1
                        if isinstance(n, ast.Assign) and len(n.targets) == 1 and isinstance(n.targets[0], ast.Name) and n.targets[0].id == flag \
                                and isinstance(n.value, ast.BinOp) and isinstance(n.value.op, ast.Add):
                            l_, r_ = n.value.left, n.value.right
                            return (isinstance(l_, ast.Name) and l_.id == flag and const_int(r_) == 1) or \
                                (isinstance(r_, ast.Name) and r_.id == flag and const_int(l_) == 1)
                        return False
                    sets = [n for f in top_fors for n in ast.walk(f) if _inc1(n)]
                    others = [n for n in ast.walk(mon) if isinstance(n, (ast.Assign, ast.AugAssign)) and n not in resets and n not in sets
                              and any(isinstance(x, ast.Name) and x.id == flag and isinstance(x.ctx, ast.Store) for x in ast.walk(n))]
                    if others:
                        sets = []
                if flag and resets and sets and same_for and mon.body.index(resets[0]) < mon.body.index(top_fors[0]):
                    final_ok, why = True, ""
                else:
                    why = "the break is not guarded by a flag recomputed by the pass that inspects the exit codes"
            else:
                why = "the monitor is left by something other than one break placed after the inspecting pass"
        elif isinstance(t, ast.Name):
            flag = t.id
            # flag is reset to False before, and set True inside, the for that inspects the exit codes
            resets = [n for n in mon.body if isinstance(n, ast.Assign) and isinstance(n.targets[0], ast.Name) and n.targets[0].id == flag
                      and isinstance(n.value, ast.Constant) and n.value.value is False]
            sets = [n for f in fors for n in ast.walk(f) if isinstance(n, ast.Assign) and isinstance(n.targets[0], ast.Name) and n.targets[0].id == flag
                    and isinstance(n.value, ast.Constant) and n.value.value is True]
            same_for = bool(fors) and any(is_inside(pa.node, node, f) for f in fors for node, _, _ in fb)
            if resets and sets and same_for and comes_before(pa.node, resets[0], fors[0]):
                final_ok, why = True, ""
            else:
                why = "the loop flag `%s` is not recomputed by the pass that inspects the exit codes" % flag
                # the flag computed from something gathered during the pass (`flag = any(c is None for c in seen)`): not read
                if any(isinstance(n, ast.Assign) and isinstance(n.targets[0], ast.Name) and n.targets[0].id == flag and not isinstance(n.value, ast.Constant)
                       for n in ast.walk(mon)):
                    final_ok, why = None, "the loop flag `%s` is computed by an expression the analysis does not read" % flag
        elif any(isinstance(n, ast.Attribute) and n.attr == "exitcode" for n in ast.walk(t)):
            # condition looks at the exit codes directly: the body never runs once all workers have exited
            mi = _top_index(pa, mon)
            post = []
            for s_ in pa.body()[mi + 1:]:
                if isinstance(s_, (ast.For, ast.If)) and any(isinstance(n, ast.Attribute) and n.attr == "exitcode" for n in ast.walk(s_)) \
                        and any(isinstance(n, ast.Raise) or (isinstance(n, ast.Call) and isinstance(n.func, ast.Attribute) and n.func.attr in ("kill", "close")) for n in ast.walk(s_)):
                    post.append(s_)
            if post:
                final_ok, why = True, ""
            else:
                why = ("the loop stops as soon as no worker is running, so a worker that dies last (or the only worker) is never inspected: "
                       "no exit-code check follows the loop")
    ctx.ob("dead-detect", pa, mon, "final inspection after the last worker exited",
           "every worker's exit code is inspected at least once after it has exited", final_ok, why)
