"""parallel_add protocol rules: pills, once, nrecs, joinfirst, mergetree (E6-ii), rettable, spawn-pickle (C08);
cb-guard, dead-detect, dead-cleanup, dead-raise (C19)."""
from __future__ import annotations

import ast
from collections import Counter

from .facts import SKETCH_CLASSES, const_int, facts_of
from .flow import Arr, Bytes, Num, Opaque, Tup, conjuncts, show_cond
from .lin import Lin, show_lin
from .model import AnalysisError, call_name, calls_in, dotted, self_attr, unparse, walk_no_nested
from .rules_arith import agg, fact_strs, group_by_node, on_path, on_path_h, src

H = "helpers"


def _process_calls(func):
    """ctx.Process(target=..., args=..., kwargs=...) calls in func -> [(call, target name, args tuple node)]"""
    out = []
    for n in walk_no_nested(func.node):
        if isinstance(n, ast.Call) and isinstance(n.func, ast.Attribute) and n.func.attr == "Process":
            kw = {k.arg: k.value for k in n.keywords}
            tgt = kw.get("target")
            out.append((n, tgt.id if isinstance(tgt, ast.Name) else None, kw.get("args"), kw.get("kwargs")))
    return out


def _top_index(func, node):
    """Index of the top-level statement of func's body containing node."""
    for i, s in enumerate(func.body()):
        if s.lineno <= node.lineno <= s.end_lineno:
            return i
    return -1


# ---------------------------------------------------------------------------
# pills
# ---------------------------------------------------------------------------

def rule_pills(ctx):
    F = facts_of(ctx)
    fq = ctx.model.func(H, "_fill_queue")
    pa = ctx.model.func(H, "parallel_add")
    wk = ctx.model.func(H, "_worker")
    ctx.analysed_funcs.update([fq.key, pa.key])
    # the Process that runs _fill_queue
    pcs = [p for p in _process_calls(pa) if p[1] == fq.name]
    if len(pcs) != 1 or not isinstance(pcs[0][2], ast.Tuple):
        ctx.ob("pills", pa, pa.node, "Process(target=_fill_queue, args=...)", "the filler process is started with a readable argument tuple", None)
        return
    args = pcs[0][2].elts
    amap = dict(zip(fq.params, args))
    # (1) every item put exactly once, unconditionally
    w = F.walk(fq)
    items_p = None
    for p, a in amap.items():
        if isinstance(a, ast.Name) and a.id == "items":
            items_p = p
    queue_p = None
    wq = [p for p in _process_calls(pa) if p[1] == wk.name]
    # the work queue: the one also handed to the workers
    if wq and isinstance(wq[0][2], ast.Tuple):
        wnames = {unparse(e) for e in wq[0][2].elts}
        for p, a in amap.items():
            if unparse(a) in wnames and p != items_p and "log" not in p:
                queue_p = p
    if items_p is None or queue_p is None:
        ctx.ob("pills", fq, fq.node, "_fill_queue(queue, items, ...)", "filler receives the work queue and the items", None, "roles not identified: %r" % {k: unparse(v) for k, v in amap.items()})
        return
    item_loops = [n for n in fq.body() if isinstance(n, ast.For) and items_p in {x.id for x in ast.walk(n.iter) if isinstance(x, ast.Name)}]
    okk, why = False, "no loop over the items"
    if len(item_loops) == 1:
        lp = item_loops[0]
        tv = None
        it = lp.iter
        if isinstance(it, ast.Name) and isinstance(lp.target, ast.Name):
            tv = lp.target.id
        elif isinstance(it, ast.Call) and dotted(it.func) == "enumerate" and isinstance(lp.target, ast.Tuple) and len(lp.target.elts) == 2:
            tv = lp.target.elts[1].id if isinstance(lp.target.elts[1], ast.Name) else None
        puts = [s for s in lp.body if isinstance(s, ast.Expr) and isinstance(s.value, ast.Call) and dotted(s.value.func) == queue_p + ".put"]
        all_puts = [n for n in walk_no_nested(lp) if isinstance(n, ast.Call) and dotted(n.func) == queue_p + ".put"]
        escapes = [n for n in walk_no_nested(lp) if isinstance(n, (ast.Break, ast.Continue, ast.Return))]
        first_risky = next((i for i, s in enumerate(lp.body) if isinstance(s, (ast.If, ast.Try, ast.While, ast.For))), len(lp.body))
        okk = tv is not None and len(puts) == 1 and len(all_puts) == 1 and len(puts[0].value.args) == 1 \
            and isinstance(puts[0].value.args[0], ast.Name) and puts[0].value.args[0].id == tv and not escapes
        why = "" if okk else "items are not each `put` once, unconditionally, at the top of the loop body"
    ctx.ob("pills", fq, item_loops[0] if item_loops else fq.node, "for item in items: queue.put(item)", "every item is placed on the work queue exactly once", okk, why)
    # (2) pills >= workers
    nw_arg = None
    pill_loops = []
    for n in fq.body():
        if isinstance(n, ast.For) and any(isinstance(c, ast.Call) and dotted(c.func) == queue_p + ".put" and len(c.args) == 1
                                          and isinstance(c.args[0], ast.Constant) and c.args[0].value is None for c in calls_in(n)):
            pill_loops.append(n)
    lends = [e for e in w.events if e.kind == "loopstart" and e.node in pill_loops]
    res = []
    pill_param = None
    for e in lends:
        lp = e.loop
        if lp.kind != "range" or lp.start != Lin.const(0) or lp.step != Lin.const(1):
            res.append((None, "pill loop is not range(n) from 0"))
            continue
        ps = [t for t in lp.stop.terms() if t[0] == "param"]
        if len(ps) != 1 or lp.stop.c[ps[0]] != 1:
            res.append((None, "pill count %s is not <parameter> + c" % show_lin(lp.stop)))
            continue
        pill_param = ps[0][1]
        surplus = lp.stop - Lin.term(ps[0])
        okk = surplus.is_const() and surplus.k >= 0
        res.append((bool(okk), "pills = %s" % show_lin(lp.stop) if okk else "only %s pills: fewer than one per worker, a worker never returns" % show_lin(lp.stop), fact_strs(e)))
    unconditional = all(isinstance(s, ast.Expr) for n in pill_loops for s in n.body) and len(pill_loops) == 1
    if not lends:
        res.append((False, "no loop putting one None per worker after the items"))
    agg(ctx, "pills", fq, pill_loops[0] if pill_loops else fq.node, "for _ in range(n_workers): queue.put(None)",
        "after all items at least one poison pill per worker is queued", res)
    ctx.ob("pills", fq, pill_loops[0] if pill_loops else fq.node, "pill loop body", "each iteration of the pill loop puts a pill unconditionally", bool(unconditional))
    if pill_loops and item_loops:
        ctx.ob("pills", fq, pill_loops[0], "pills after items", "pills are queued after every item", pill_loops[0].lineno > item_loops[0].end_lineno)
    # the same n_workers binding feeds the pill count and the number of workers started
    nw = amap.get(pill_param) if pill_param else None
    starts = []
    for n in pa.body():
        if isinstance(n, ast.For) and any(p[1] == wk.name and n.lineno <= p[0].lineno <= n.end_lineno for p in _process_calls(pa)):
            starts.append(n)
    okk, why = False, "worker start loop not found"
    if len(starts) == 1 and isinstance(nw, ast.Name):
        it = starts[0].iter
        okk = isinstance(it, ast.Call) and dotted(it.func) == "range" and len(it.args) == 1 and isinstance(it.args[0], ast.Name) and it.args[0].id == nw.id
        why = "" if okk else "workers are started over `%s` but the filler is told `%s`" % (unparse(it), unparse(nw))
        if okk:
            # no rebinding between the two uses
            lo = min(pcs[0][0].lineno, starts[0].lineno)
            hi = max(pcs[0][0].lineno, starts[0].end_lineno)
            reb = [n for n in walk_no_nested(pa.node) if isinstance(n, ast.Name) and n.id == nw.id and isinstance(n.ctx, ast.Store) and lo <= n.lineno <= hi]
            okk = not reb
            why = "" if okk else "`%s` is rebound between starting the filler and starting the workers" % nw.id
        started = [c for c in calls_in(starts[0]) if isinstance(c.func, ast.Attribute) and c.func.attr == "start"]
        if okk and not started:
            okk, why = False, "workers are created but not started in the loop"
    ctx.ob("pills", pa, starts[0] if starts else pa.node, "for i in range(n_workers): Process(target=_worker).start()",
           "as many workers are started as the filler queues pills for (same n_workers binding)", okk, why)


# ---------------------------------------------------------------------------
# once / nrecs / cb-guard  (_worker)
# ---------------------------------------------------------------------------

def _worker_shape(ctx):
    F = facts_of(ctx)
    wk = ctx.model.func(H, "_worker")
    ctx.analysed_funcs.add(wk.key)
    loops = [n for n in wk.body() if isinstance(n, ast.While)]
    if len(loops) != 1:
        raise AnalysisError("_worker: expected one top-level `while` loop, found %d" % len(loops))
    lp = loops[0]
    cb = None
    # the callback parameter: the one called with (q_item, *local_sketches, **kwargs)
    for n in walk_no_nested(lp):
        if isinstance(n, ast.Call) and isinstance(n.func, ast.Name) and n.func.id in wk.params and any(isinstance(a, ast.Starred) for a in n.args):
            cb = cb or n
    wk._cb_calls = [n for n in walk_no_nested(wk.node) if cb is not None and isinstance(n, ast.Call) and isinstance(n.func, ast.Name) and n.func.id == cb.func.id]
    gets = [n for n in walk_no_nested(lp) if isinstance(n, ast.Call) and isinstance(n.func, ast.Attribute) and n.func.attr == "get"]
    return wk, lp, cb, gets


def rule_once(ctx):
    F = facts_of(ctx)
    wk, lp, cb, gets = _worker_shape(ctx)
    w = F.walk(wk)
    inq = None
    if gets:
        inq = dotted(gets[0].func.value)
    okk = len(gets) == 1 and inq in wk.params and gets[0].lineno == lp.body[0].lineno
    ctx.ob("once", wk, gets[0] if gets else lp, "q_item = in_queue.get()", "each iteration takes exactly one item from the work queue, first thing", bool(okk))
    if cb is None or not gets:
        ctx.ob("once", wk, lp, "process_q_item(q_item, *local_sketches, **kwargs)", "the callback is applied to the item", False, "callback call not found")
        return
    # item variable
    itemvar = None
    for s in lp.body:
        if isinstance(s, ast.Assign) and s.value is gets[0] and isinstance(s.targets[0], ast.Name):
            itemvar = s.targets[0].id
    a0 = cb.args[0] if cb.args else None
    star = [a for a in cb.args if isinstance(a, ast.Starred)]
    okk = isinstance(a0, ast.Name) and a0.id == itemvar and len(cb.args) == 2 and len(star) == 1 and any(k.arg is None for k in cb.keywords)
    ctx.ob("once", wk, cb, unparse(cb, 80), "the callback receives (item, *local sketches, **kwargs)", bool(okk))
    # local sketches: one attach per descriptor, in order
    sk = [n for n in wk.body() if isinstance(n, ast.For) and n.lineno < lp.lineno]
    oka = False
    for n in sk:
        cs = [c for c in calls_in(n) if dotted(c.func) == "attach_shared_memory"]
        ap = [c for c in calls_in(n) if isinstance(c.func, ast.Attribute) and c.func.attr == "append"]
        if cs and ap and isinstance(n.iter, ast.Name) and n.iter.id in wk.params and star and dotted(ap[0].func.value) == unparse(star[0].value):
            oka = True
    ctx.ob("once", wk, sk[0] if sk else wk.node, "for s in sketch: local_sketches.append(attach_shared_memory(*s))",
           "the worker attaches one local view per descriptor, in the order given (alphabetical cms, hh, hll)", oka)
    # paths: continue-paths call the callback exactly once; exit paths never, and only on a None item
    lends = [e for e in w.events if e.kind == "loopend" and e.loop.node is lp]
    rets = [e for e in w.events if e.kind == "ret" and not e.implicit and lp.lineno <= e.line <= lp.end_lineno]
    res = []
    for e in lends:
        evs = [x for x in on_path_h(w.events, e) if x.loops and x.loops[-1] is e.loops[-1] or (x.loops and e.loops[-1] in x.loops)]
        n_get = len({id(x.node) for x in evs if x.kind == "call" and x.node is gets[0]})
        n_cb = len([x for x in evs if x.kind == "call" and x.node in wk._cb_calls])
        res.append((n_get == 1 and n_cb == 1, "one get, one callback" if n_get == 1 and n_cb == 1 else
                    "a path through the loop body makes %d get() and %d callback call(s)" % (n_get, n_cb), fact_strs(e)))
    agg(ctx, "once", wk, lp, "loop body (item path)", "an item taken from the queue is processed exactly once before the next is taken", res)
    res = []
    for r in rets:
        evs = on_path(w.events, r)
        n_cb = len([x for x in evs if x.kind == "call" and x.node in wk._cb_calls and x.loops and r.loops and x.loops[-1] is r.loops[-1]])
        # the exit is taken on the None branch
        none_branch = any(isinstance(s.test, ast.Compare) and isinstance(s.test.ops[0], (ast.Is, ast.IsNot)) and
                          isinstance(s.test.left, ast.Name) and s.test.left.id == itemvar and
                          (taken == isinstance(s.test.ops[0], ast.Is)) for (s, taken, cc) in r.path if isinstance(s, ast.If))
        res.append((n_cb == 0 and none_branch, "worker returns only on the poison pill, without processing it" if n_cb == 0 and none_branch else
                    "worker can return on a real item or after processing one", fact_strs(r)))
    if not rets:
        res.append((False, "the worker never returns"))
    agg(ctx, "once", wk, rets[0].node if rets else lp, "return on the poison pill", "None ends the worker on every path, and only None does", res)
    # no other exit from the loop
    brk = [n for n in walk_no_nested(lp) if isinstance(n, ast.Break)]
    ctx.ob("once", wk, brk[0] if brk else lp, "no break", "the loop ends only through the pill's return", not brk)


def rule_nrecs(ctx):
    F = facts_of(ctx)
    wk, lp, cb, gets = _worker_shape(ctx)
    w = F.walk(wk)
    lends = [e for e in w.events if e.kind == "loopend" and e.loop.node is lp]
    # n_records accumulation: on every item path exactly one `acc += n_recs`
    acc = None
    for n in walk_no_nested(lp):
        if isinstance(n, ast.AugAssign) and isinstance(n.op, ast.Add) and isinstance(n.target, ast.Name) and isinstance(n.value, ast.Name):
            acc = n
    if acc is None:
        ctx.ob("nrecs", wk, lp, "n_records += n_recs", "the worker accumulates the callback's return value", False, "no accumulation found")
        return
    accname, recname = acc.target.id, acc.value.id
    res = []
    for e in lends:
        evs = [x for x in on_path(w.events, e) if x.kind == "assign" and x.name == accname and x.loops and e.loops[-1] in x.loops]
        okk = len(evs) == 1 and evs[0].aug is not None and isinstance(evs[0].aug[0], ast.Add)
        res.append((okk, "one accumulation per item" if okk else "%d accumulations on an item path" % len(evs), fact_strs(e)))
    agg(ctx, "nrecs", wk, acc, "%s += %s" % (accname, recname), "the record count grows once per processed item", res)
    # n_recs is the callback's return value on the success path
    okk = False
    for n in walk_no_nested(lp):
        if isinstance(n, ast.Assign) and n.value is cb and isinstance(n.targets[0], ast.Name) and n.targets[0].id == recname:
            okk = True
    ctx.ob("nrecs", wk, cb or lp, "%s = process_q_item(...)" % recname, "the amount accumulated is the callback's return value", okk)
    # initialised to zero before the loop
    init = [s for s in wk.body() if isinstance(s, ast.Assign) and isinstance(s.targets[0], ast.Name) and s.targets[0].id == accname and s.lineno < lp.lineno]
    ctx.ob("nrecs", wk, init[0] if init else wk.node, "%s = 0" % accname, "the record count starts at zero", bool(init) and const_int(init[0].value) == 0)
    # on the pill path: each local sketch's n_added_records[1] += n_records, once
    fin = []
    for n in walk_no_nested(lp):
        if isinstance(n, ast.AugAssign) and isinstance(n.op, ast.Add) and isinstance(n.target, ast.Subscript) \
                and isinstance(n.target.value, ast.Attribute) and n.target.value.attr == "n_added_records":
            fin.append(n)
    okk = len(fin) == 1 and const_int(fin[0].target.slice) == 1 and accname in {x.id for x in ast.walk(fin[0].value) if isinstance(x, ast.Name)}
    ctx.ob("nrecs", wk, fin[0] if fin else lp, "local_sketch.n_added_records[1] += n_records", "at the pill the worker adds its record count to slot 1 of each sketch, once", bool(okk))
    if fin:
        # inside a for over all local sketches, on the None branch
        encl = [n for n in walk_no_nested(lp) if isinstance(n, ast.For) and n.lineno <= fin[0].lineno <= n.end_lineno]
        okk = len(encl) == 1 and isinstance(encl[0].iter, ast.Name)
        ctx.ob("nrecs", wk, encl[0] if encl else fin[0], "for local_sketch in local_sketches", "every local sketch receives the count", bool(okk))


def rule_cb_guard(ctx):
    F = facts_of(ctx)
    wk, lp, cb, gets = _worker_shape(ctx)
    w = F.walk(wk)
    if cb is None:
        ctx.ob("cb-guard", wk, lp, "process_q_item(...)", "callback call found", None)
        return
    tries = [n for n in walk_no_nested(lp) if isinstance(n, ast.Try) and any(x is cb for s in n.body for x in ast.walk(s))]
    if not tries:
        ctx.ob("cb-guard", wk, cb, unparse(cb, 60), "the callback is called inside try/except", False,
               "a raising callback kills the worker: the remaining items are lost or the run hangs")
        return
    t = tries[-1]
    broad = False
    for h in t.handlers:
        nm = dotted(h.type) if h.type is not None else None
        if h.type is None or nm in ("Exception", "BaseException"):
            broad = True
    ctx.ob("cb-guard", wk, t, "except %s" % ", ".join((dotted(h.type) or "<bare>") if h.type is not None else "<bare>" for h in t.handlers),
           "the handler catches every Exception of the callback", broad, "" if broad else "only narrower exception types are caught")
    esc = [n for h in t.handlers for s in h.body for n in walk_no_nested(s) if isinstance(n, (ast.Raise, ast.Return, ast.Break))]
    ctx.ob("cb-guard", wk, esc[0] if esc else t, "handler body", "the handler neither re-raises nor leaves the loop: the other items are still processed", not esc)
    # handler sets the per-item count to literal 0
    recname = None
    for n in walk_no_nested(lp):
        if isinstance(n, ast.Assign) and n.value is cb and isinstance(n.targets[0], ast.Name):
            recname = n.targets[0].id
    zero = False
    for h in t.handlers:
        for s in h.body:
            if isinstance(s, ast.Assign) and isinstance(s.targets[0], ast.Name) and s.targets[0].id == recname and const_int(s.value) == 0:
                zero = True
    ctx.ob("cb-guard", wk, t, "except ...: %s = 0" % recname, "a failed item contributes 0 records", zero,
           "" if zero else "the handler does not set the item's record count to 0 (n_records would count failed items or use a stale value)")
    # the accumulation follows on both paths (flow): each loopend path has one accumulation whose amount is the call result or 0
    lends = [e for e in w.events if e.kind == "loopend" and e.loop.node is lp]
    res = []
    for e in lends:
        evs = [x for x in on_path(w.events, e) if x.kind == "assign" and x.aug is not None and isinstance(x.aug[0], ast.Add)
               and x.loops and e.loops[-1] in x.loops and isinstance(x.node, ast.AugAssign) and isinstance(x.node.value, ast.Name) and x.node.value.id == recname]
        if len(evs) != 1:
            res.append((False, "%d accumulations" % len(evs), fact_strs(e)))
            continue
        amt = evs[0].aug[2]
        okk = (isinstance(amt, Num) and amt.lin == Lin.const(0)) or isinstance(amt, Opaque)
        res.append((okk, "amount is the callback's result or 0" if okk else "amount %r" % (amt,), fact_strs(e)))
    agg(ctx, "cb-guard", wk, t, "n_records += n_recs on both paths", "success adds the callback's count, failure adds 0, and the loop continues", res)
    # n_recs is not accumulated inside the try body only
    accs = [n for n in walk_no_nested(lp) if isinstance(n, ast.AugAssign) and isinstance(n.value, ast.Name) and n.value.id == recname]
    outside = all(not (t.lineno <= a.lineno <= t.end_lineno) for a in accs) and bool(accs)
    ctx.ob("cb-guard", wk, accs[0] if accs else t, "accumulation after the try", "the accumulation is shared by the success and the failure path", outside)


# ---------------------------------------------------------------------------
# joinfirst / rettable / spawn-pickle
# ---------------------------------------------------------------------------

def sketch_roles(pa):
    """tag -> {'array': name of the per-worker list, 'final': name bound to parallel_merging(array), 'args': parameter}."""
    roles = {}
    facs = {"cms": "CountMin", "hh": "HeavyHitters", "hll": "HyperLogLog"}
    for tag, fac in facs.items():
        arr = fin = None
        for n in walk_no_nested(pa.node):
            if isinstance(n, ast.Call) and isinstance(n.func, ast.Attribute) and n.func.attr == "append" and n.args and isinstance(n.args[0], ast.Call) \
                    and dotted(n.args[0].func) == fac and isinstance(n.func.value, ast.Name):
                arr = n.func.value.id
        for n in walk_no_nested(pa.node):
            if isinstance(n, ast.Assign) and isinstance(n.targets[0], ast.Name) and isinstance(n.value, ast.Call) and dotted(n.value.func) == "parallel_merging" \
                    and n.value.args and isinstance(n.value.args[0], ast.Name) and n.value.args[0].id == arr:
                fin = n.targets[0].id
        roles[tag] = {"array": arr, "final": fin, "args": "%s_args" % tag}
    return roles


def rule_joinfirst(ctx):
    pa = ctx.model.func(H, "parallel_add")
    wk = ctx.model.func(H, "_worker")
    ctx.analysed_funcs.add(pa.key)
    body = pa.body()
    # the list the workers are appended to
    wl = None
    for n in walk_no_nested(pa.node):
        if isinstance(n, ast.Call) and isinstance(n.func, ast.Attribute) and n.func.attr == "append" and n.args and isinstance(n.args[0], ast.Call) \
                and isinstance(n.args[0].func, ast.Attribute) and n.args[0].func.attr == "Process":
            kw = {k.arg: k.value for k in n.args[0].keywords}
            if isinstance(kw.get("target"), ast.Name) and kw["target"].id == wk.name:
                wl = dotted(n.func.value)
    joins = []
    for i, s in enumerate(body):
        if isinstance(s, ast.For) and isinstance(s.iter, ast.Name) and s.iter.id == wl and isinstance(s.target, ast.Name):
            js = [c for c in calls_in(s) if isinstance(c.func, ast.Attribute) and c.func.attr == "join" and dotted(c.func.value) == s.target.id]
            direct = [st for st in s.body if isinstance(st, ast.Expr) and isinstance(st.value, ast.Call) and st.value in js]
            if direct:
                joins.append(i)
    merges = [(i, c) for i, s in enumerate(body) for c in calls_in(s) if dotted(c.func) == "parallel_merging"]
    okk = bool(joins) and bool(merges) and min(joins) < min(i for i, _ in merges)
    ctx.ob("joinfirst", pa, body[joins[0]] if joins else pa.node, "for p in workers: p.join()  before  parallel_merging(...)",
           "every worker has finished before any of its sketches is merged", okk,
           "" if okk else "no loop joining every worker precedes the first merge")
    # each X_array is merged into X_final and X_array holds the sketches created for the workers
    roles = sketch_roles(pa)
    for tag, fac in (("cms", "CountMin"), ("hh", "HeavyHitters"), ("hll", "HyperLogLog")):
        arr, fin = roles[tag]["array"], roles[tag]["final"]
        if arr is None or fin is None:
            ctx.ob("joinfirst", pa, pa.node, "%s sketches" % tag, "per-worker %s sketches are created and merged" % tag, False,
                   "no list of %s(...) sketches merged by parallel_merging" % fac)
            continue
        m = [c for _, c in merges if c.args and isinstance(c.args[0], ast.Name) and c.args[0].id == arr]
        asg = [n for n in walk_no_nested(pa.node) if isinstance(n, ast.Assign) and isinstance(n.targets[0], ast.Name) and n.targets[0].id == fin and n.value in m]
        ap = [n for n in walk_no_nested(pa.node) if isinstance(n, ast.Call) and dotted(n.func) == arr + ".append" and n.args and isinstance(n.args[0], ast.Call)
              and dotted(n.args[0].func) == fac]
        shm = bool(ap) and any(k.arg == "shared_memory" and isinstance(k.value, ast.Constant) and k.value.value is True for k in ap[0].args[0].keywords)
        okk = len(m) == 1 and len(asg) == 1 and len(ap) == 1 and shm
        ctx.ob("joinfirst", pa, asg[0] if asg else pa.node, "%s = parallel_merging(%s, ...)" % (fin, arr),
               "the per-worker %s sketches (shared memory) are exactly what is merged into the result" % tag, okk)


def _truth(node, env):
    """Evaluate a boolean expression over names (True/False from env); None if not understood."""
    if isinstance(node, ast.Name):
        return env.get(node.id)
    if isinstance(node, ast.BoolOp):
        vals = [_truth(v, env) for v in node.values]
        if None in vals:
            return None
        return all(vals) if isinstance(node.op, ast.And) else any(vals)
    if isinstance(node, ast.UnaryOp) and isinstance(node.op, ast.Not):
        v = _truth(node.operand, env)
        return None if v is None else (not v)
    if isinstance(node, ast.Compare) and len(node.ops) == 1 and isinstance(node.left, ast.Name) and isinstance(node.comparators[0], ast.Constant) \
            and node.comparators[0].value is None:
        v = env.get(node.left.id)
        if v is None:
            return None
        return (not v) if isinstance(node.ops[0], ast.Is) else v if isinstance(node.ops[0], ast.IsNot) else None
    return None


def rule_rettable(ctx):
    pa = ctx.model.func(H, "parallel_add")
    body = pa.body()
    # the return chain: the last top-level if/elif chain whose bodies return
    chain = None
    for s in body:
        if isinstance(s, ast.If) and any(isinstance(x, ast.Return) for x in s.body):
            chain = s
    if chain is None:
        ctx.ob("rettable", pa, pa.node, "return table", "parallel_add returns through an if/elif table", None)
        return
    tags = ["cms", "hh", "hll"]
    roles = sketch_roles(pa)
    import itertools
    for r in range(1, 4):
        for sub in itertools.combinations(tags, r):
            env = {"%s_args" % t: (t in sub) for t in tags}
            node = chain
            got = None
            und = False
            while node is not None:
                v = _truth(node.test, env)
                if v is None:
                    und = True
                    break
                if v:
                    rets = [x for x in node.body if isinstance(x, ast.Return)]
                    got = rets[0] if rets else None
                    break
                nxt = node.orelse
                node = nxt[0] if len(nxt) == 1 and isinstance(nxt[0], ast.If) else None
                if node is None and nxt:
                    rets = [x for x in nxt if isinstance(x, ast.Return)]
                    got = rets[0] if rets else None
            want = [roles[t]["final"] for t in sub]
            if und:
                ctx.ob("rettable", pa, chain, "{%s}" % ",".join(sub), "return table condition readable", None)
                continue
            if got is None:
                ctx.ob("rettable", pa, chain, "{%s} -> (nothing)" % ",".join(sub), "returns %s" % want, False, "no branch returns for this combination")
                continue
            v = got.value
            names = [e.id if isinstance(e, ast.Name) else None for e in (v.elts if isinstance(v, ast.Tuple) else [v])]
            okk = names == want
            ctx.ob("rettable", pa, got, "{%s} -> %s" % (",".join(sub), names), "the sketches requested are returned, in alphabetical order (cms, hh, hll)", okk,
                   "" if okk else "expected %s" % want)
    # each X_final is assigned under the same condition X_args
    for t in tags:
        ok = False
        for s in body:
            if isinstance(s, ast.If) and _truth(s.test, {"%s_args" % t: True, **{"%s_args" % o: False for o in tags if o != t}}) \
                    and not _truth(s.test, {"%s_args" % o: False for o in tags}):
                if any(isinstance(n, ast.Assign) and isinstance(n.targets[0], ast.Name) and n.targets[0].id == roles[t]["final"] for n in s.body):
                    ok = True
        ctx.ob("rettable", pa, pa.node, "%s result defined when %s_args" % (t, t), "each returned name is defined on the path that returns it", ok)


GENERATOR_ANNOTATIONS = ("Iterable", "Iterator", "Generator")


def rule_spawn_pickle(ctx):
    for fname in ("parallel_add", "parallel_merging"):
        f = ctx.model.func(H, fname)
        ctxs = [n for n in walk_no_nested(f.node) if isinstance(n, ast.Call) and dotted(n.func) == "get_context" and n.args
                and isinstance(n.args[0], ast.Constant)]
        method = ctxs[0].args[0].value if ctxs else None
        for call, tgt, args, kwargs in _process_calls(f):
            if method != "spawn" or not isinstance(args, ast.Tuple):
                ctx.ob("spawn-pickle", f, call, "Process(target=%s)" % tgt, "process arguments readable (spawn context)", None if method == "spawn" else True)
                continue
            for a in args.elts:
                if not isinstance(a, ast.Name) or a.id not in f.params:
                    continue
                ann = None
                for arg in f.node.args.args:
                    if arg.arg == a.id and arg.annotation is not None:
                        ann = unparse(arg.annotation)
                gen = ann is not None and any(g in ann for g in GENERATOR_ANNOTATIONS)
                ctx.ob("spawn-pickle", f, call, "Process(target=%s, args∋%s)" % (tgt, a.id),
                       "every argument of a spawned process is picklable for every value its annotation/documentation admits", not gen,
                       "" if not gen else "`%s: %s` (documented 'a generator or list') is pickled by the spawn context: generators raise TypeError" % (a.id, ann))


# ---------------------------------------------------------------------------
# mergetree (E6-ii): slot-set interpretation of parallel_merging for n = 1..N
# ---------------------------------------------------------------------------

class MTUndecided(Exception):
    pass


class MTViolation(Exception):
    pass


class Unknown:
    def __repr__(self):
        return "?"


UNK = Unknown()


class Slot:
    def __init__(self, i):
        self.members = Counter({i: 1})
        self.id = i

    def __repr__(self):
        return "Slot%d%s" % (self.id, sorted(self.members.elements()))


class SlotRef:
    def __init__(self, slot):
        self.slot = slot


class Proc:
    def __init__(self, target, args):
        self.target = target
        self.args = args
        self.started = False
        self.joined = False


class MergeTreeInterp:
    """Interprets parallel_merging's AST on a list of abstract slots.  Supports only the constructs it has exact
    semantics for; anything else raises MTUndecided."""

    def __init__(self, func, merge_worker_order, n):
        self.func = func
        self.order = merge_worker_order      # (dst_param_index, src_param_index)
        self.n = n
        self.round = []                      # procs started and not yet joined
        self.rounds = 0
        self.merged_src = set()              # slot ids that were a source in the current round
        self.steps = 0
        self.unknown_decisions = 0
        self.unknown_tests = set()
        self.policy = lambda k: True

    def run(self):
        slots = [Slot(i) for i in range(self.n)]
        self.all = slots
        env = {self.func.params[0]: list(slots)}
        for p in self.func.params[1:]:
            env[p] = UNK
        r = self.block(self.func.body(), env)
        if r is None or r[0] != "ret":
            raise MTViolation("parallel_merging does not return a sketch for n=%d" % self.n)
        if self.round:
            raise MTViolation("n=%d: the result is returned while mergers are still running (not joined)" % self.n)
        return r[1]

    # -- statements
    def block(self, stmts, env):
        for s in stmts:
            self.steps += 1
            if self.steps > 200000:
                raise MTViolation("n=%d: merge schedule does not terminate" % self.n)
            r = self.stmt(s, env)
            if r is not None:
                return r
        return None

    def stmt(self, s, env):
        if isinstance(s, ast.Expr):
            if isinstance(s.value, ast.Constant):
                return None
            self.ev(s.value, env)
            return None
        if isinstance(s, ast.Assign) and len(s.targets) == 1:
            v = self.ev(s.value, env)
            t = s.targets[0]
            if isinstance(t, ast.Name):
                env[t.id] = v
            elif isinstance(t, ast.Subscript):
                base = self.ev(t.value, env)
                i = self.ev(t.slice, env)
                if isinstance(base, list) and isinstance(i, int):
                    if not (-len(base) <= i < len(base)):
                        raise MTViolation("n=%d: index %d out of range in `%s`" % (self.n, i, unparse(s)))
                    old = base[i]
                    if v is None and isinstance(old, Slot):
                        self.drop(old, s)
                    base[i] = v
                else:
                    raise MTUndecided("store `%s`" % unparse(s))
            else:
                raise MTUndecided("assignment target `%s`" % unparse(t))
            return None
        if isinstance(s, ast.AugAssign) and isinstance(s.target, ast.Name):
            env[s.target.id] = self.binop(s.op, env[s.target.id], self.ev(s.value, env))
            return None
        if isinstance(s, ast.If):
            t = self.ev(s.test, env)
            only_raise = all(isinstance(x, ast.Raise) for x in s.body)
            if isinstance(t, Unknown):
                if only_raise and not s.orelse:
                    return None          # defensive check on values outside the model
                if isinstance(s.test, ast.Call) and dotted(s.test.func) == "isinstance":
                    return self.block(s.body, env)     # type dispatch: any branch assigns the tag; take the first
                # a data-dependent decision (e.g. on a sketch's contents): resolved by the policy of this run; the schedule
                # must be right whichever way such decisions go
                self.unknown_decisions += 1
                self.unknown_tests.add(unparse(s.test, 70))
                choice = self.policy(self.unknown_decisions)
                return self.block(s.body if choice else s.orelse, env)
            return self.block(s.body if t else s.orelse, env)
        if isinstance(s, ast.While):
            while True:
                t = self.ev(s.test, env)
                if isinstance(t, Unknown):
                    raise MTUndecided("loop condition `%s`" % unparse(s.test))
                if not t:
                    break
                r = self.block(s.body, env)
                if r is not None:
                    if r[0] == "break":
                        break
                    if r[0] == "continue":
                        continue
                    return r
            return None
        if isinstance(s, ast.For):
            it = self.ev(s.iter, env)
            if isinstance(it, range):
                it = list(it)
            if not isinstance(it, list):
                raise MTUndecided("iteration over `%s`" % unparse(s.iter))
            for x in list(it):
                if isinstance(s.target, ast.Name):
                    env[s.target.id] = x
                else:
                    raise MTUndecided("loop target")
                r = self.block(s.body, env)
                if r is not None:
                    if r[0] == "break":
                        break
                    if r[0] == "continue":
                        continue
                    return r
            return None
        if isinstance(s, ast.Return):
            return ("ret", self.ev(s.value, env) if s.value is not None else None)
        if isinstance(s, ast.Raise):
            raise MTViolation("n=%d: `%s` reached" % (self.n, unparse(s, 60)))
        if isinstance(s, ast.Break):
            return ("break",)
        if isinstance(s, ast.Continue):
            return ("continue",)
        if isinstance(s, ast.Pass):
            return None
        if isinstance(s, ast.Delete):
            return None
        raise MTUndecided("statement %s" % type(s).__name__)

    def drop(self, slot, node):
        if slot.id not in self.merged_src:
            raise MTViolation("n=%d: sketch %r is discarded without having been merged into a survivor in this round" % (self.n, slot))

    # -- expressions
    def ev(self, e, env):
        if isinstance(e, ast.Constant):
            return e.value
        if isinstance(e, ast.Name):
            if e.id in env:
                return env[e.id]
            return UNK
        if isinstance(e, ast.List):
            return [self.ev(x, env) for x in e.elts]
        if isinstance(e, ast.Tuple):
            return tuple(self.ev(x, env) for x in e.elts)
        if isinstance(e, ast.JoinedStr):
            return UNK
        if isinstance(e, ast.Dict):
            return UNK
        if isinstance(e, ast.BinOp):
            return self.binop(e.op, self.ev(e.left, env), self.ev(e.right, env))
        if isinstance(e, ast.UnaryOp):
            v = self.ev(e.operand, env)
            if isinstance(v, Unknown):
                return UNK
            if isinstance(e.op, ast.Not):
                return not v
            if isinstance(e.op, ast.USub):
                return -v
        if isinstance(e, ast.BoolOp):
            vals = [self.ev(v, env) for v in e.values]
            if any(isinstance(v, Unknown) for v in vals):
                return UNK
            return all(vals) if isinstance(e.op, ast.And) else any(vals)
        if isinstance(e, ast.Compare):
            l = self.ev(e.left, env)
            out = True
            for op, c in zip(e.ops, e.comparators):
                r = self.ev(c, env)
                if isinstance(l, Unknown) or isinstance(r, Unknown):
                    return UNK
                if isinstance(op, ast.Lt):
                    ok = l < r
                elif isinstance(op, ast.LtE):
                    ok = l <= r
                elif isinstance(op, ast.Gt):
                    ok = l > r
                elif isinstance(op, ast.GtE):
                    ok = l >= r
                elif isinstance(op, ast.Eq):
                    ok = l == r
                elif isinstance(op, ast.NotEq):
                    ok = l != r
                elif isinstance(op, ast.Is):
                    ok = l is r
                elif isinstance(op, ast.IsNot):
                    ok = l is not r
                else:
                    return UNK
                out = out and ok
                l = r
            return out
        if isinstance(e, ast.Subscript):
            base = self.ev(e.value, env)
            if isinstance(e.slice, ast.Slice):
                if isinstance(base, list):
                    lo = self.ev(e.slice.lower, env) if e.slice.lower is not None else None
                    hi = self.ev(e.slice.upper, env) if e.slice.upper is not None else None
                    st = self.ev(e.slice.step, env) if e.slice.step is not None else None
                    return base[lo:hi:st]
                return UNK
            i = self.ev(e.slice, env)
            if isinstance(base, (list, tuple)) and isinstance(i, int):
                if not (-len(base) <= i < len(base)):
                    raise MTViolation("n=%d: index %d out of range in `%s`" % (self.n, i, unparse(e)))
                return base[i]
            return UNK
        if isinstance(e, ast.Attribute):
            b = self.ev(e.value, env)
            if isinstance(b, Slot):
                if e.attr == "shm":
                    return SlotRef(b)
                return UNK
            if b is None and e.attr in ("shm", "args"):
                raise MTViolation("n=%d: a sketch that was already discarded is used again (`%s`)" % (self.n, unparse(e)))
            if isinstance(b, SlotRef):
                return b if e.attr == "name" else UNK
            if isinstance(b, Proc):
                if e.attr == "exitcode":
                    return 0
                return UNK
            return UNK
        if isinstance(e, ast.Call):
            return self.call(e, env)
        return UNK

    def binop(self, op, a, b):
        if isinstance(a, Unknown) or isinstance(b, Unknown):
            return UNK
        if isinstance(op, ast.Add):
            return a + b
        if isinstance(op, ast.Sub):
            return a - b
        if isinstance(op, ast.Mult):
            return a * b
        if isinstance(op, ast.FloorDiv):
            return a // b
        if isinstance(op, ast.Mod):
            return a % b
        if isinstance(op, ast.RShift):
            return a >> b
        if isinstance(op, ast.LShift):
            return a << b
        return UNK

    def call(self, e, env):
        d = dotted(e.func)
        if d == "len":
            v = self.ev(e.args[0], env)
            return len(v) if isinstance(v, (list, tuple)) else UNK
        if d == "range":
            a = [self.ev(x, env) for x in e.args]
            if any(not isinstance(x, int) for x in a):
                raise MTUndecided("range(%s)" % ", ".join(unparse(x) for x in e.args))
            return list(range(*a))
        if d in ("list", "enumerate", "reversed", "zip"):
            raise MTUndecided("builtin %s" % d)
        if isinstance(e.func, ast.Attribute):
            recv = self.ev(e.func.value, env)
            m = e.func.attr
            if m == "Process":
                kw = {k.arg: k.value for k in e.keywords}
                tgt = kw.get("target")
                args = self.ev(kw["args"], env) if "args" in kw else ()
                return Proc(tgt.id if isinstance(tgt, ast.Name) else None, args)
            if isinstance(recv, list) and m == "append":
                recv.append(self.ev(e.args[0], env))
                return None
            if isinstance(recv, list) and m == "pop":
                return recv.pop(*[self.ev(a, env) for a in e.args])
            if isinstance(recv, Proc) and m == "start":
                self.start(recv)
                return None
            if isinstance(recv, Proc) and m == "join":
                self.join(recv)
                return None
            return UNK        # logging, gc.collect, get_context ...
        return UNK

    def slots_of(self, p):
        out = []
        for a in p.args:
            ref = None
            if isinstance(a, tuple):
                for x in a:
                    if isinstance(x, SlotRef):
                        ref = x.slot
            elif isinstance(a, SlotRef):
                ref = a.slot
            out.append(ref)
        return out

    def start(self, p):
        if p.started:
            raise MTViolation("n=%d: a merger is started twice" % self.n)
        p.started = True
        sl = self.slots_of(p)
        if len(sl) != 2 or None in sl:
            raise MTUndecided("merger arguments are not two sketch descriptors")
        busy = set()
        for q in self.round:
            for s in self.slots_of(q):
                busy.add(s.id)
        if sl[0].id == sl[1].id:
            raise MTViolation("n=%d: a sketch is merged with itself (%r)" % (self.n, sl[0]))
        for s in sl:
            if s.id in busy:
                raise MTViolation("n=%d: %r is used by two concurrent mergers of one round (data race on a shared block)" % (self.n, s))
        self.round.append(p)

    def join(self, p):
        if not p.started:
            raise MTViolation("n=%d: join of a merger that was never started" % self.n)
        if p.joined:
            return
        p.joined = True
        # all mergers of a round run concurrently; apply when joined
        sl = self.slots_of(p)
        dst, srcs = sl[self.order[0]], sl[self.order[1]]
        dst.members.update(srcs.members)
        self.merged_src.add(srcs.id)
        self.round.remove(p)
        if not self.round:
            self.rounds += 1


def merge_worker_order(ctx):
    """(dst index, src index) of _merge_worker's two descriptor parameters: sX = attach(*sketchX); s_dst.merge(s_src)."""
    mw = ctx.model.func(H, "_merge_worker")
    ctx.analysed_funcs.add(mw.key)
    att = {}
    for n in walk_no_nested(mw.node):
        if isinstance(n, ast.Assign) and isinstance(n.targets[0], ast.Name) and isinstance(n.value, ast.Call) and dotted(n.value.func) == "attach_shared_memory" \
                and n.value.args and isinstance(n.value.args[0], ast.Starred) and isinstance(n.value.args[0].value, ast.Name):
            att[n.targets[0].id] = n.value.args[0].value.id
    merges = [n for n in walk_no_nested(mw.node) if isinstance(n, ast.Call) and isinstance(n.func, ast.Attribute) and n.func.attr == "merge"]
    if len(merges) != 1 or len(merges[0].args) != 1:
        return mw, None
    dst, srcv = dotted(merges[0].func.value), dotted(merges[0].args[0])
    if dst in att and srcv in att and att[dst] in mw.params and att[srcv] in mw.params:
        return mw, (mw.params.index(att[dst]), mw.params.index(att[srcv]))
    return mw, None


def rule_mergetree(ctx, nmax=None):
    pm = ctx.model.func(H, "parallel_merging")
    ctx.analysed_funcs.add(pm.key)
    mw, order = merge_worker_order(ctx)
    ctx.ob("mergetree", mw, mw.node, "_merge_worker: s1 = attach(*sketch1); s2 = attach(*sketch2); s1.merge(s2)",
           "a merger merges its second descriptor into its first", order == (0, 1) or order == (1, 0),
           "" if order else "merge direction not identified")
    if order is None:
        return
    # the Process args order in parallel_merging is interpreted through `order`
    nmax = nmax or (1024 if ctx.tier == "thorough" else 64)
    fails, und = [], []
    rounds_seen = {}
    policies = [("always true", lambda k: True), ("always false", lambda k: False), ("alternating", lambda k: k % 2 == 0),
                ("alternating'", lambda k: k % 2 == 1), ("every third", lambda k: k % 3 == 0)]
    unknown_tests = set()
    for n in range(1, nmax + 1):
        for pi, (pname, pol) in enumerate(policies):
            it = MergeTreeInterp(pm, order, n)
            it.policy = pol
            try:
                res = it.run()
            except MTUndecided as u:
                und.append((n, str(u)))
                break
            except MTViolation as v:
                fails.append((n, str(v) + ((" (data-dependent decisions `%s` resolved %s)" % ("`, `".join(sorted(it.unknown_tests)), pname)) if it.unknown_decisions else "")))
                break
            unknown_tests |= it.unknown_tests
            if not isinstance(res, Slot):
                fails.append((n, "n=%d: returns %r, not a sketch" % (n, res)))
                break
            want = Counter({i: 1 for i in range(n)})
            if res.members != want:
                missing = sorted(set(want) - set(res.members))
                dup = sorted(k for k, v in res.members.items() if v > 1)
                fails.append((n, "n=%d: the returned sketch lacks worker sketches %s%s%s" % (
                    n, missing[:6], (" and counts %s twice" % dup[:6]) if dup else "",
                    (" when the data-dependent decisions `%s` are resolved %s" % ("`, `".join(sorted(it.unknown_tests)), pname)) if it.unknown_decisions else "")))
                break
            rounds_seen[n] = it.rounds
            if not it.unknown_decisions:
                break          # no data-dependent decision: one run decides this n
        if und:
            break
    if und:
        ctx.ob("mergetree", pm, pm.node, "parallel_merging schedule", "merge schedule interpretable", None, "n=%d: %s" % und[0])
        return
    if unknown_tests and not fails:
        ctx.ob("mergetree", pm, pm.node, "parallel_merging: data-dependent decisions %s" % sorted(unknown_tests),
               "the schedule is decided for every resolution of its data-dependent decisions", None,
               "5 resolution policies were explored without a violation, which is not all of them")
    ctx.ob("mergetree", pm, pm.node, "parallel_merging schedule for n = 1..%d" % nmax,
           "for every worker count the pairwise rounds use disjoint sketches, discard only merged sources, terminate, and return one "
           "sketch holding every worker's sketch exactly once", not fails,
           "" if not fails else "; ".join(f[1] for f in fails[:3]))
    ctx.note("mergetree: %d worker counts interpreted, rounds needed e.g. %s" % (len(rounds_seen), {k: rounds_seen[k] for k in list(rounds_seen)[:9]}))
    # mergers are joined before survivors are chosen; failure of a merger is an error
    joins = [n for n in walk_no_nested(pm.node) if isinstance(n, ast.Call) and isinstance(n.func, ast.Attribute) and n.func.attr == "join"]
    ctx.ob("mergetree", pm, joins[0] if joins else pm.node, "p.join() for every merger of a round", "a round's mergers are joined before the next round pairs their results", bool(joins))


# ---------------------------------------------------------------------------
# C19 dead-detect / dead-cleanup / dead-raise
# ---------------------------------------------------------------------------

def _monitor(ctx):
    pa = ctx.model.func(H, "parallel_add")
    wk = ctx.model.func(H, "_worker")
    body = pa.body()
    wl = None
    for n in walk_no_nested(pa.node):
        if isinstance(n, ast.Call) and isinstance(n.func, ast.Attribute) and n.func.attr == "append" and n.args and isinstance(n.args[0], ast.Call) \
                and isinstance(n.args[0].func, ast.Attribute) and n.args[0].func.attr == "Process":
            kw = {k.arg: k.value for k in n.args[0].keywords}
            if isinstance(kw.get("target"), ast.Name) and kw["target"].id == wk.name:
                wl = dotted(n.func.value)
    # the monitor: a top-level loop (while/for) containing `.exitcode` tests, located after the worker start loop
    mon = None
    for s in body:
        if isinstance(s, (ast.While, ast.For)) and any(isinstance(n, ast.Attribute) and n.attr == "exitcode" for n in ast.walk(s)):
            if any(isinstance(n, ast.Name) and n.id == wl for n in ast.walk(s)):
                mon = s
    return pa, wl, mon


def _exitcode_var(test):
    for n in ast.walk(test):
        if isinstance(n, ast.Attribute) and n.attr == "exitcode":
            return dotted(n.value)
    return None


def _is_failure_test(test, under_not_none):
    """True if `test` holds for every non-zero exit code (given the code is not None when under_not_none)."""
    def nonzero(t):
        if isinstance(t, ast.Compare) and len(t.ops) == 1 and isinstance(t.left, ast.Attribute) and t.left.attr == "exitcode":
            c = const_int(t.comparators[0])
            if isinstance(t.ops[0], ast.NotEq) and c == 0:
                return {"neg", "pos"}
            if isinstance(t.ops[0], ast.Lt) and c == 0:
                return {"neg"}
            if isinstance(t.ops[0], ast.Gt) and c == 0:
                return {"pos"}
            if isinstance(t.ops[0], ast.GtE) and c == 1:
                return {"pos"}
            if isinstance(t.ops[0], ast.LtE) and c == -1:
                return {"neg"}
            return set()
        if isinstance(t, ast.UnaryOp) and isinstance(t.op, ast.Not) and isinstance(t.operand, ast.Compare):
            o = t.operand
            if len(o.ops) == 1 and isinstance(o.ops[0], ast.Eq) and const_int(o.comparators[0]) == 0 and isinstance(o.left, ast.Attribute) and o.left.attr == "exitcode":
                return {"neg", "pos"}
            return set()
        if isinstance(t, ast.BoolOp) and isinstance(t.op, ast.Or):
            out = set()
            for v in t.values:
                out |= nonzero(v)
            return out
        if isinstance(t, ast.BoolOp) and isinstance(t.op, ast.And):
            # (code is not None) and (code != 0)
            outs = [nonzero(v) for v in t.values if not _is_not_none(v)]
            return set.intersection(*outs) if outs else set()
        if isinstance(t, ast.Attribute) and t.attr == "exitcode" and under_not_none:
            return {"neg", "pos"}      # truthiness of a non-None int
        return set()
    return nonzero(test) == {"neg", "pos"}


def _is_not_none(t):
    return isinstance(t, ast.Compare) and len(t.ops) == 1 and isinstance(t.ops[0], ast.IsNot) and isinstance(t.comparators[0], ast.Constant) \
        and t.comparators[0].value is None


def _failure_branches(mon):
    """[(if-node, body)] whose body kills/terminates/raises, with the chain of tests leading to it."""
    out = []

    def visit(stmts, not_none):
        for s in stmts:
            if isinstance(s, ast.If):
                has_ec = any(isinstance(n, ast.Attribute) and n.attr == "exitcode" for n in ast.walk(s.test))
                is_none = isinstance(s.test, ast.Compare) and len(s.test.ops) == 1 and isinstance(s.test.ops[0], ast.Is) \
                    and isinstance(s.test.comparators[0], ast.Constant) and s.test.comparators[0].value is None and has_ec
                acts = [n for st in s.body for n in ast.walk(st) if (isinstance(n, ast.Call) and isinstance(n.func, ast.Attribute) and n.func.attr in ("kill", "terminate"))
                        or isinstance(n, ast.Raise)]
                if has_ec and acts and not is_none:
                    out.append((s, s.body, not_none))
                visit(s.body, not_none or _is_not_none(s.test))
                visit(s.orelse, not_none or is_none)
            elif isinstance(s, (ast.For, ast.While, ast.With, ast.Try)):
                visit(s.body, not_none)
                visit(getattr(s, "orelse", []) or [], not_none)
    visit(mon.body, False)
    return out


def rule_dead(ctx):
    pa, wl, mon = _monitor(ctx)
    ctx.analysed_funcs.add(pa.key)
    if mon is None or wl is None:
        ctx.ob("dead-detect", pa, pa.node, "worker monitor", "parallel_add watches its workers' exit codes", False,
               "no loop over the workers inspecting .exitcode: a dead worker goes unnoticed")
        return
    # every worker inspected: a for over the whole worker list inside the monitor
    fors = [n for n in ast.walk(mon) if isinstance(n, ast.For) and wl in {x.id for x in ast.walk(n.iter) if isinstance(x, ast.Name)}
            and any(isinstance(x, ast.Attribute) and x.attr == "exitcode" for x in ast.walk(n))]
    whole = False
    for f in fors:
        it = f.iter
        if (isinstance(it, ast.Name) and it.id == wl) or (isinstance(it, ast.Call) and dotted(it.func) == "enumerate" and len(it.args) == 1
                                                          and isinstance(it.args[0], ast.Name) and it.args[0].id == wl):
            whole = True
    ctx.ob("dead-detect", pa, fors[0] if fors else mon, "for p in workers: p.exitcode", "the exit code of every started worker is inspected", whole,
           "" if whole else "the monitor does not iterate over the whole worker list")
    fb = _failure_branches(mon)
    if not fb:
        ctx.ob("dead-detect", pa, mon, "failure branch", "a non-zero exit code is treated as failure", False, "no branch reacts to a bad exit code")
        return
    for node, body, not_none in fb:
        nn = not_none or (isinstance(node.test, ast.BoolOp) and isinstance(node.test.op, ast.And) and any(_is_not_none(v) for v in node.test.values))
        okk = _is_failure_test(node.test, nn) and nn
        not_none = nn
        ctx.ob("dead-detect", pa, node, "elif %s" % unparse(node.test, 60),
               "every non-zero, non-None exit code counts as failure (os._exit(1) and signals alike)", okk,
               "" if okk else ("test `%s` misses some non-zero exit codes" % unparse(node.test) if not_none else "exit code may still be None on this branch"))
        # ---- dead-cleanup
        kills_workers = False
        for n in body:
            for f in ast.walk(n):
                if isinstance(f, ast.For) and isinstance(f.iter, ast.Name) and f.iter.id == wl and isinstance(f.target, ast.Name):
                    if any(isinstance(c, ast.Call) and isinstance(c.func, ast.Attribute) and c.func.attr in ("kill", "terminate")
                           and dotted(c.func.value) == f.target.id for c in ast.walk(f)):
                        kills_workers = True
        ctx.ob("dead-cleanup", pa, node, "for worker in workers: worker.kill()", "all workers are stopped when one died (a healthy one would wait for items forever)", kills_workers)
        # filler process
        fq = ctx.model.func(H, "_fill_queue")
        fillvar = None
        for n in walk_no_nested(pa.node):
            if isinstance(n, ast.Assign) and isinstance(n.value, ast.Call) and isinstance(n.value.func, ast.Attribute) and n.value.func.attr == "Process":
                kw = {k.arg: k.value for k in n.value.keywords}
                if isinstance(kw.get("target"), ast.Name) and kw["target"].id == fq.name and isinstance(n.targets[0], ast.Name):
                    fillvar = n.targets[0].id
        kf = any(isinstance(c, ast.Call) and isinstance(c.func, ast.Attribute) and c.func.attr in ("kill", "terminate") and dotted(c.func.value) == fillvar
                 for st in body for c in ast.walk(st))
        ctx.ob("dead-cleanup", pa, node, "%s.kill()" % fillvar, "the filler process is stopped (it would block on a full queue with no consumers, and the later join would hang)", kf)
        # the cleanup precedes the unconditional joins
        joins = [i for i, s in enumerate(pa.body()) if any(isinstance(c, ast.Call) and isinstance(c.func, ast.Attribute) and c.func.attr == "join" for c in ast.walk(s))
                 and not any(s is mon for _ in [0])]
        mi = _top_index(pa, mon)
        ctx.ob("dead-cleanup", pa, mon, "monitor before joins", "the monitor (and its cleanup) runs before the unconditional join() calls",
               bool(joins) and all(j > mi for j in joins if j != mi))
        # ---- dead-raise
        raises = [n for st in body for n in ast.walk(st) if isinstance(n, ast.Raise)]
        closed = {dotted(c.func.value) for st in body for c in ast.walk(st) if isinstance(c, ast.Call) and isinstance(c.func, ast.Attribute) and c.func.attr == "close"}
        how = None
        if raises:
            how = "explicit raise in the failure branch"
        else:
            # an unconditional top-level put on a queue this branch closed, after the monitor and before any return
            for i, s in enumerate(pa.body()):
                if i <= mi:
                    continue
                if any(isinstance(n, ast.Return) for n in ast.walk(s)):
                    break
                if isinstance(s, ast.Expr) and isinstance(s.value, ast.Call) and isinstance(s.value.func, ast.Attribute) and s.value.func.attr == "put" \
                        and dotted(s.value.func.value) in closed:
                    how = "unconditional %s.put(...) at line %d on a queue closed by the failure branch (Queue.put on a closed queue raises ValueError)" % (dotted(s.value.func.value), s.lineno)
                    break
        ctx.ob("dead-raise", pa, node, "failure branch => exception before any return",
               "after a worker died every path to a `return` of sketches passes through a raise", how is not None,
               "" if how else "the failure branch neither raises nor closes a queue that is unconditionally used before the return: a result lacking the dead worker's data is returned",
               proof=how or "")
        # the monitor loop terminates after a failure: the branch must not leave a worker's exit code None forever -> kill covers it
    # the loop keeps polling while any worker is running
    ctx.ob("dead-detect", pa, mon, "monitor loop `%s`" % (unparse(mon.test, 40) if isinstance(mon, ast.While) else "for"),
           "the monitor polls until no worker is running", isinstance(mon, ast.While))
    # the exit codes are inspected at least once AFTER the last worker has exited: either the loop is of the do-while kind
    # (its condition is a flag recomputed by the inspecting pass itself), or an inspection follows the loop
    final_ok, why = False, "monitor shape not understood"
    if isinstance(mon, ast.While):
        t = mon.test
        if isinstance(t, ast.Name):
            flag = t.id
            # flag is reset to False before, and set True inside, the for that inspects the exit codes
            resets = [n for n in mon.body if isinstance(n, ast.Assign) and isinstance(n.targets[0], ast.Name) and n.targets[0].id == flag
                      and isinstance(n.value, ast.Constant) and n.value.value is False]
            sets = [n for f in fors for n in ast.walk(f) if isinstance(n, ast.Assign) and isinstance(n.targets[0], ast.Name) and n.targets[0].id == flag
                    and isinstance(n.value, ast.Constant) and n.value.value is True]
            same_for = bool(fors) and any(node.lineno >= f.lineno and node.end_lineno <= f.end_lineno for f in fors for node, _, _ in fb)
            if resets and sets and same_for and resets[0].lineno < fors[0].lineno:
                final_ok, why = True, ""
            else:
                why = "the loop flag `%s` is not recomputed by the pass that inspects the exit codes" % flag
        elif any(isinstance(n, ast.Attribute) and n.attr == "exitcode" for n in ast.walk(t)):
            # condition looks at the exit codes directly: the body never runs once all workers have exited
            mi = _top_index(pa, mon)
            post = []
            for s_ in pa.body()[mi + 1:]:
                if isinstance(s_, (ast.For, ast.If)) and any(isinstance(n, ast.Attribute) and n.attr == "exitcode" for n in ast.walk(s_)) \
                        and any(isinstance(n, ast.Raise) or (isinstance(n, ast.Call) and isinstance(n.func, ast.Attribute) and n.func.attr in ("kill", "close")) for n in ast.walk(s_)):
                    post.append(s_)
            if post:
                final_ok, why = True, ""
            else:
                why = ("the loop stops as soon as no worker is running, so a worker that dies last (or the only worker) is never inspected: "
                       "no exit-code check follows the loop")
    ctx.ob("dead-detect", pa, mon, "final inspection after the last worker exited",
           "every worker's exit code is inspected at least once after it has exited", final_ok, why)
