"""E7 -- obligations, known findings, evidence and exit codes."""
from __future__ import annotations

import json
import os
import time

from .model import AnalysisError, Model, unparse

VERIF = os.path.dirname(os.path.dirname(os.path.abspath(__file__)))
EVIDENCE_DIR = os.path.join(VERIF, "evidence")
REPLAY_DIR = os.path.join(EVIDENCE_DIR, "replay")
KNOWN = os.path.join(VERIF, "known_findings.json")

OK, FAIL, UNDECIDED = "ok", "fail", "undecided"


class Ob:
    """One obligation of one rule instance."""
    __slots__ = ("rule", "file", "func", "line", "construct", "goal", "status", "detail", "proof", "facts")

    def __init__(self, rule, file, func, line, construct, goal, status, detail="", proof="", facts=()):
        self.rule = rule
        self.file = file
        self.func = func
        self.line = line
        self.construct = construct
        self.goal = goal
        self.status = status
        self.detail = detail
        self.proof = proof
        self.facts = list(facts)

    @property
    def key(self):
        return "%s::%s::%s" % (self.file.split("/")[-1], self.func, self.construct)

    def as_dict(self):
        d = {"rule": self.rule, "key": self.key, "file": self.file, "function": self.func, "line": self.line,
             "construct": self.construct, "goal": self.goal, "status": self.status}
        if self.detail:
            d["detail"] = self.detail
        if self.proof:
            d["proof"] = self.proof
        if self.facts:
            d["facts"] = self.facts[:12]
        return d


class Ctx:
    """Per-run context shared by all rules of one property check."""

    def __init__(self, prop, tier="quick", model=None):
        self.prop = prop
        self.tier = tier
        self.model = model or Model()
        self.obs = []
        self.notes = []
        self.analysed_funcs = set()
        self.rule_instances = {}
        self.undecided_clauses = []
        self.assumptions = []
        self.floor_errors = []
        self.floors = {}
        self._shared = {}

    # -- recording ------------------------------------------------------
    def only(self, rules):
        """Context manager: inside it, obligations of rules other than `rules` are not recorded (a property that needs one clause of
        a larger rule runs the rule and keeps that clause)."""
        ctx = self

        class _Only:
            def __enter__(self_):
                self_.prev = getattr(ctx, "_only", None)
                ctx._only = set(rules)

            def __exit__(self_, *a):
                ctx._only = self_.prev
                return False
        return _Only()

    def soft(self, why):
        """Context manager: inside it, an obligation that comes out UNDECIDED is kept as a note instead of an obligation (failures and
        discharged obligations are recorded as usual).  Used where a property runs the rules of a neighbouring part of the package as
        an additional necessary condition: a shape of that neighbouring code the rules do not read must not make this property's
        check undecided -- its own check decides it."""
        ctx = self

        class _Soft:
            def __enter__(self_):
                self_.prev = getattr(ctx, "_soft", None)
                ctx._soft = why

            def __exit__(self_, *a):
                ctx._soft = self_.prev
                return False
        return _Soft()

    def ob(self, rule, func, node, construct, goal, status, detail="", proof="", facts=()):
        """func: model.Func | (file, name) ; node: ast node or line."""
        if getattr(self, "_only", None) is not None and rule not in self._only:
            return None
        if status is None and getattr(self, "_soft", None):
            self.note("%s (not decided here, %s): %s -- %s" % (rule, self._soft, construct, detail))
            return None
        if hasattr(func, "key"):
            file, fname = func.file, func.qualname
            self.analysed_funcs.add(func.key)
        else:
            file, fname = func
        line = getattr(node, "lineno", node if isinstance(node, int) else 0)
        if status is True:
            status = OK
        elif status is False:
            status = FAIL
        elif status is None:
            status = UNDECIDED
        o = Ob(rule, file, fname, line, construct, goal, status, detail, str(proof) if proof else "",
               [str(f) for f in facts])
        self.obs.append(o)
        self.rule_instances[rule] = self.rule_instances.get(rule, 0) + 1
        return o

    def floor(self, rule, n, what=""):
        """Fail closed when a rule saw fewer instances than confirmed by hand."""
        have = self.rule_instances.get(rule, 0)
        # n instances were confirmed by reading the pinned tree.  A behaviour-preserving refactoring may merge a few sites, a rule
        # that lost its anchor matches none or almost none: the check fails closed below half of the confirmed count.
        need = max(1, (n + 1) // 2)
        self.floors[rule] = {"confirmed": n, "required": need, "matched": have}
        if have < need:
            self.floor_errors.append("rule %s matched %d instance(s), fewer than %d (half of the %d confirmed by hand)%s"
                                     % (rule, have, need, n, (" (" + what + ")") if what else ""))

    def note(self, s):
        self.notes.append(s)

    def shared(self, key, fn):
        if key not in self._shared:
            self._shared[key] = fn()
        return self._shared[key]


def load_known():
    if not os.path.exists(KNOWN):
        return []
    with open(KNOWN) as f:
        return json.load(f).get("findings", [])


def finish(ctx, level, explanation, t0, trusted_base=(), extra=None, selftest=None):
    """Print the report, write evidence + replay files, return the exit code."""
    prop = ctx.prop
    known = [k for k in load_known() if k.get("property") == prop and k.get("status") == "open"]
    fails = [o for o in ctx.obs if o.status == FAIL]
    undec = [o for o in ctx.obs if o.status == UNDECIDED]
    oks = [o for o in ctx.obs if o.status == OK]
    os.makedirs(REPLAY_DIR, exist_ok=True)
    # old replay files of this property
    for fn in os.listdir(REPLAY_DIR):
        if fn.startswith(prop + "-"):
            try:
                os.remove(os.path.join(REPLAY_DIR, fn))
            except OSError:
                pass
    violations = []
    known_hits = []
    for o in fails:
        hit = next((k for k in known if k.get("rule") == o.rule and k.get("key") == o.key), None)
        if hit:
            known_hits.append((o, hit))
        else:
            violations.append(o)
    per_rule = {}
    for o in ctx.obs:
        r = per_rule.setdefault(o.rule, {"instances": 0, "ok": 0, "fail": 0, "undecided": 0})
        r["instances"] += 1
        r[o.status] += 1
    print("property %s tier=%s: %d obligations over %d functions, %d discharged, %d failed, %d undecided"
          % (prop, ctx.tier, len(ctx.obs), len(ctx.analysed_funcs), len(oks), len(fails), len(undec)))
    for r, c in sorted(per_rule.items()):
        print("  rule %-16s instances=%-3d ok=%-3d fail=%-3d undecided=%d" % (r, c["instances"], c["ok"], c["fail"], c["undecided"]))
    for n in ctx.notes:
        print("  note: " + n)
    for o, hit in known_hits:
        print("KNOWN-FINDING: property=%s %s [%s] %s" % (prop, hit.get("what", o.detail), o.rule, o.key))
    n = 0
    for o in violations:
        n += 1
        path = os.path.join(REPLAY_DIR, "%s-%d.json" % (prop, n))
        with open(path, "w") as f:
            json.dump({"property": prop, **o.as_dict()}, f, indent=1)
        print("  %s:%d: [%s] %s -- %s%s" % (o.file, o.line, o.rule, o.construct, o.goal,
                                              (" -- " + o.detail) if o.detail else ""))
        print("VIOLATION property=%s replay=%s" % (prop, path))
    for o in undec:
        print("ANALYSIS-ERROR undecided: %s:%d: [%s] %s -- %s%s" % (o.file, o.line, o.rule, o.construct, o.goal,
                                                                    (" -- " + o.detail) if o.detail else ""))
    for fe in ctx.floor_errors:
        print("ANALYSIS-ERROR floor: " + fe)
    if selftest and selftest.get("errors"):
        for e in selftest["errors"]:
            print("ANALYSIS-ERROR self-test: " + e)
    # evidence
    samples = []
    seen_rules = set()
    for o in ctx.obs:
        if o.rule not in seen_rules or len(samples) < 12:
            if sum(1 for s in samples if s["rule"] == o.rule) < 2:
                samples.append(o.as_dict())
                seen_rules.add(o.rule)
    distinct = len({(o.rule, o.key, o.goal) for o in ctx.obs})
    cov = {
        "explanation": explanation,
        "obligations": len(ctx.obs),
        "discharged": len(oks),
        "failed_known_findings": len(known_hits),
        "undecided": len(undec),
        "evaluations": len(ctx.obs),
        "distinct_nontrivial": distinct,
        "rule": "one evaluation = one obligation of one rule instance on one construct of /repo's working tree; "
                "distinct = distinct (rule, file::function::construct, goal) triples",
        "samples": samples[:40],
        "checker_cmd": "/venv/bin/python -m sa.check %s --tier %s" % (prop, ctx.tier),
        "trusted_base": list(trusted_base),
        "functions_analysed": sorted(ctx.analysed_funcs),
        "rules": per_rule,
        "instance_floors": ctx.floors,
        "source_digest": ctx.model.digest(ctx.model.modules.keys()),
        "not_decided": ctx.undecided_clauses,
        "notes": ctx.notes,
        "exhaustive": True,
    }
    if extra:
        cov.update(extra)
    if selftest:
        cov["selftest"] = {k: v for k, v in selftest.items() if k != "errors"}
        cov["selftest"]["errors"] = selftest.get("errors", [])
    ev = {
        "property_id": prop,
        "tier": ctx.tier,
        "seed": int(os.environ.get("VERIF_SEED", "0") or 0),
        "level": level,
        "coverage": cov,
        "assumptions": list(ctx.assumptions),
        "wall_s": round(time.time() - t0, 3),
        "violations": len(violations),
    }
    os.makedirs(EVIDENCE_DIR, exist_ok=True)
    with open(os.path.join(EVIDENCE_DIR, "%s.json" % prop), "w") as f:
        json.dump(ev, f, indent=1, default=str)
    if violations:
        return 1
    if undec or ctx.floor_errors or (selftest and selftest.get("errors")):
        return 2
    return 0
