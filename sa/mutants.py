"""T2 -- in-memory mutant self-test of the rules.

Each mutant is a text edit of one repository module applied IN MEMORY (no scratch copy on disk); the property's
rules are then run on the mutated source model.  kind 'B' (breaking): at least one obligation of an expected rule
must FAIL (not merely be undecided).  kind 'E' (equivalent / behaviour preserving): no obligation may fail or be
undecided.  A mutant whose pattern no longer applies to the current tree is skipped and reported as such.

    python -m sa.mutants [--prop C18] [--id m-c18-01] [-j 16] [-v]
"""
from __future__ import annotations

import argparse
import os
import sys
import warnings
from concurrent.futures import ProcessPoolExecutor

from .model import PKG, REPO, AnalysisError, Model


class M:
    def __init__(self, mid, props, module, old, new, kind="B", rules=(), count=1, note="", also=()):
        self.id = mid
        self.props = props if isinstance(props, (list, tuple)) else [props]
        self.module = module
        self.old = old
        self.new = new
        self.kind = kind
        self.rules = tuple(rules)
        self.count = count
        self.note = note
        self.also = tuple(also)      # further (module, old, new) edits applied together


def load_sources():
    d = os.path.join(REPO, PKG)
    out = {}
    for fn in sorted(os.listdir(d)):
        if fn.endswith(".py"):
            with open(os.path.join(d, fn), encoding="utf-8") as f:
                out[fn[:-3]] = f.read()
    return out


def apply(m, sources):
    src = dict(sources)
    if callable(m.old):
        try:
            out = m.old(dict(src))
        except Exception:
            return None
        if out is None or out == src:
            return None
        return out
    for mod, old, new, cnt in [(m.module, m.old, m.new, m.count)] + [(a[0], a[1], a[2], a[3] if len(a) > 3 else 1) for a in m.also]:
        if mod not in src or src[mod].count(old) != cnt:
            return None
        src[mod] = src[mod].replace(old, new)
    return src


def run_one(args):
    mid, prop = args
    warnings.simplefilter("ignore")
    from . import props as P
    from .corpus import CORPUS
    from .report import Ctx
    m = next(x for x in CORPUS if x.id == mid)
    src = apply(m, load_sources())
    if src is None:
        return (mid, prop, m.kind, "skipped", "pattern no longer applies to the current tree", [])
    try:
        ctx = Ctx(prop, "quick", model=Model(sources=src))
        P.PROPS[prop]["run"](ctx)
    except AnalysisError as e:
        st = "analysis-error"
        return (mid, prop, m.kind, st, str(e), [])
    except Exception as e:   # pragma: no cover
        return (mid, prop, m.kind, "crash", "%s: %s" % (type(e).__name__, e), [])
    from .report import load_known
    known = {(k.get("rule"), k.get("key")) for k in load_known() if k.get("status") == "open" and k.get("property") == prop}
    fails = [(o.rule, o.key, o.goal, o.detail) for o in ctx.obs if o.status == "fail" and (o.rule, o.key) not in known]
    und = [(o.rule, o.key, o.goal, o.detail) for o in ctx.obs if o.status == "undecided"]
    if m.kind in ("B", "B2"):
        hit = [f for f in fails if not m.rules or f[0] in m.rules]
        if hit:
            return (mid, prop, m.kind, "caught", "%s at %s" % (hit[0][0], hit[0][1]), fails)
        if fails:
            return (mid, prop, m.kind, "caught-other-rule", "%s at %s" % (fails[0][0], fails[0][1]), fails)
        if und:
            return (mid, prop, m.kind, "undecided", "%s at %s" % (und[0][0], und[0][1]), und)
        if ctx.floor_errors:
            return (mid, prop, m.kind, "analysis-error", ctx.floor_errors[0], [])
        return (mid, prop, m.kind, "missed", "", [])
    elif m.kind == "X":
        # a correct variant on which some check is KNOWN to raise a false VIOLATION (documented limitation, DESIGN 10.5): tracked, not
        # asserted -- the outcome is reported so that progress (or regress) on these shapes is visible
        if fails:
            return (mid, prop, "X", "known-false-alarm", "%s at %s: %s" % (fails[0][0], fails[0][1], fails[0][3]), fails)
        return (mid, prop, "X", "undecided" if (und or ctx.floor_errors) else "silent", "", und)
    elif m.kind == "U":
        # a correct variant in a shape the rules do not recognise: "undecided" (exit 2) is acceptable, a violation is a false alarm
        if fails:
            return (mid, prop, "U", "false-alarm", "%s at %s: %s" % (fails[0][0], fails[0][1], fails[0][3]), fails)
        return (mid, prop, "U", "undecided" if (und or ctx.floor_errors) else "silent", "", und)
    else:
        if fails:
            return (mid, prop, "E", "false-alarm", "%s at %s: %s" % (fails[0][0], fails[0][1], fails[0][3]), fails)
        if und:
            return (mid, prop, "E", "undecided", "%s at %s: %s" % (und[0][0], und[0][1], und[0][3]), und)
        if ctx.floor_errors:
            return (mid, prop, "E", "analysis-error", ctx.floor_errors[0], [])
        return (mid, prop, "E", "silent", "", [])


def run_corpus(prop=None, ids=None, jobs=None, verbose=False):
    """Returns (results, errors).  errors = self-test failures (missed B, alarming E)."""
    from .corpus import CORPUS
    from . import props as P
    tasks = []
    for m in CORPUS:
        if ids and m.id not in ids:
            continue
        for p in m.props:
            if prop and p != prop:
                continue
            if p in P.PROPS:
                tasks.append((m.id, p))
    jobs = jobs or min(16, os.cpu_count() or 1, max(1, len(tasks)))
    if jobs > 1 and len(tasks) > 1:
        with ProcessPoolExecutor(max_workers=jobs) as ex:
            results = list(ex.map(run_one, tasks, chunksize=1))
    else:
        results = [run_one(t) for t in tasks]
    errors = []
    for mid, p, kind, st, detail, _ in results:
        if kind == "B" and st in ("missed", "undecided", "analysis-error", "crash"):
            errors.append("mutant %s (%s) must be reported as a violation of %s but was %s %s" % (mid, kind, p, st, detail))
        if kind == "B" and st == "caught-other-rule":
            pass   # reported by a different rule than planned: still a detection
        # B2: a seeded defect that the targeted check is recorded (meta.json "answered_with": "exit2") as answering with exit 2, because
        # the rule that would decide it cannot read the changed shape: it must never be a silent pass, and a VIOLATION is welcome
        if kind == "B2" and st in ("missed", "crash"):
            errors.append("mutant %s (%s) must not pass silently for %s but was %s %s" % (mid, kind, p, st, detail))
        if kind == "U" and st == "false-alarm":
            errors.append("correct variant %s (unfamiliar shape) was reported as a violation of %s: %s" % (mid, p, detail))
        if kind == "E" and st != "silent" and st != "skipped":
            errors.append("behaviour-preserving variant %s raised %s for %s: %s" % (mid, st, p, detail))
    return results, errors


def refactor_variants():
    """E variants: behaviour-preserving refactorings written by independent agents (archived under /verif/refactors/<id>/patch.diff,
    each with an equivalence demo).  Every check must stay silent on them."""
    from .corpus import ALL_PROPS
    here = os.path.dirname(os.path.dirname(os.path.abspath(__file__)))
    d = os.path.join(here, "refactors")
    out = []
    if not os.path.isdir(d):
        return out
    for name in sorted(os.listdir(d)):
        pp = os.path.join(d, name, "patch.diff")
        if not os.path.exists(pp):
            continue
        with open(pp) as f:
            diff = f.read()
        # refactors/<id>/KIND = "X": a behaviour-preserving variant on which a check is known to raise a false VIOLATION (limitation,
        # listed in DESIGN 10.5); it is run and its outcome reported, but it is not a self-test obligation
        # refactors/<id>/KIND = "U": a behaviour-preserving variant so far from the pinned shapes (kernels built by a factory, methods
        # delegating to module-level functions) that the checks are only required not to report a VIOLATION; exit 2 is accepted
        kp = os.path.join(d, name, "KIND")
        kind = open(kp).read().strip() if os.path.exists(kp) else "E"
        out.append(M("refactor:" + name, ALL_PROPS, "*", (lambda src, _d=diff: apply_unified_diff(src, _d)), None, kind=kind,
                     note="independent behaviour-preserving refactoring archived under /verif/refactors/%s" % name))
    return out


def main(argv=None):
    warnings.simplefilter("ignore")
    ap = argparse.ArgumentParser()
    ap.add_argument("--prop")
    ap.add_argument("--id", action="append")
    ap.add_argument("-j", type=int, default=None)
    ap.add_argument("-v", action="store_true")
    a = ap.parse_args(argv)
    results, errors = run_corpus(a.prop, a.id, a.j, a.v)
    for mid, p, kind, st, detail, fails in results:
        print("%-28s %-4s %s %-18s %s" % (mid, p, kind, st, detail[:150]))
        if a.v:
            for f in fails[:6]:
                print("        %s | %s | %s | %s" % f)
    print("%d runs, %d self-test errors" % (len(results), len(errors)))
    for e in errors:
        print("SELFTEST-ERROR " + e)
    return 1 if errors else 0


if __name__ == "__main__":
    sys.exit(main())


# ---------------------------------------------------------------------------
# archived seeded changes as B-mutants (unified diffs applied in memory)
# ---------------------------------------------------------------------------

def apply_unified_diff(sources, diff_text):
    """Apply a `git diff` of sketchnu/*.py to the in-memory sources; returns new sources or None if a hunk does not fit."""
    import re
    out = dict(sources)
    files = re.split(r"^diff --git ", diff_text, flags=re.M)[1:]
    for f in files:
        m = re.search(r"^\+\+\+ b/sketchnu/(\w+)\.py$", f, flags=re.M)
        if not m:
            continue
        mod = m.group(1)
        if mod not in out:
            if re.search(r"^--- /dev/null$", f, flags=re.M):
                out[mod] = ""           # a file the patch creates
            else:
                return None
        lines = out[mod].split("\n")
        hunks = re.split(r"^@@ ", f, flags=re.M)[1:]
        offset = 0
        for h in hunks:
            hm = re.match(r"-(\d+)(?:,(\d+))? \+(\d+)(?:,(\d+))? @@.*\n", h)
            if not hm:
                return None
            start = int(hm.group(1))
            body = h[hm.end():].split("\n")
            old, new = [], []
            for ln in body:
                if ln.startswith("\\"):
                    continue
                if ln.startswith("-"):
                    old.append(ln[1:])
                elif ln.startswith("+"):
                    new.append(ln[1:])
                elif ln.startswith(" ") or ln == "":
                    if ln == "" and ln is body[-1]:
                        continue
                    old.append(ln[1:])
                    new.append(ln[1:])
            # locate: expected position first, then a search nearby (the tree may have drifted since the patch was made)
            pos = start - 1 + offset
            def fits(p):
                return 0 <= p and lines[p:p + len(old)] == old
            if not fits(pos):
                cand = [p for p in range(max(0, pos - 400), min(len(lines), pos + 400)) if fits(p)]
                if not cand:
                    return None
                pos = min(cand, key=lambda p: abs(p - pos))
            lines[pos:pos + len(old)] = new
            offset += len(new) - len(old)
        out[mod] = "\n".join(lines)
    return out


def seeded_mutants():
    """M objects for every archived seeded change (kind B for the property it targets)."""
    import json
    here = os.path.dirname(os.path.dirname(os.path.abspath(__file__)))
    d = os.path.join(here, "seeded")
    out = []
    if not os.path.isdir(d):
        return out
    for name in sorted(os.listdir(d)):
        pp, mp = os.path.join(d, name, "patch.diff"), os.path.join(d, name, "meta.json")
        if not (os.path.exists(pp) and os.path.exists(mp)):
            continue
        with open(pp) as f:
            diff = f.read()
        with open(mp) as f:
            meta = json.load(f)
        out.append(M("seeded:" + name, [meta["breaks_property"]], "*", (lambda src, _d=diff: apply_unified_diff(src, _d)), None,
                     kind="B2" if meta.get("answered_with") == "exit2" else "B",
                     note="independently seeded change archived under /verif/seeded/%s" % name))
    return out
