"""E2 -- structured, path-forking flow walk of one function with branch facts.

The walker interprets a function body *abstractly* (nothing is executed): integer
expressions become linear forms over versioned terms, conditions become facts,
``if`` forks the path, loops are entered once from a head state in which everything
the body may assign/write has been forgotten (optionally strengthened by
Houdini-checked candidate invariants supplied by a rule).  It emits *events*
(stores, unsigned subtractions, narrowing casts, calls, returns, loop ends, attribute
stores) each with the facts live at that point; the rules state goals over them.
"""
from __future__ import annotations

import ast
import itertools

from .lin import Lin, Prover, show_lin, show_term
from .model import AnalysisError, Ty, dotted, unparse, walk_no_nested

MAX_STATES = 20000
LEN_MAX = 2 ** 63 - 1      # Py_ssize_t: upper bound of any len()

CAST_NAMES = {
    "uint8": Ty("uint", 8), "uint16": Ty("uint", 16), "uint32": Ty("uint", 32), "uint64": Ty("uint", 64),
    "int8": Ty("int", 8), "int16": Ty("int", 16), "int32": Ty("int", 32), "int64": Ty("int", 64),
    "float64": Ty("float", 64), "float32": Ty("float", 32),
}
NP_DTYPES = dict(CAST_NAMES)


def cast_target(fn_node):
    """Ty if the callee expression is a scalar constructor (uint32 / np.uint32 / types.uint32 / int / float)."""
    d = dotted(fn_node)
    if d is None:
        return None
    last = d.split(".")[-1]
    if last in CAST_NAMES and d.split(".")[0] in (last, "np", "numpy", "types", "numba"):
        return CAST_NAMES[last]
    if d == "int":
        return Ty("int", 64)
    if d == "float":
        return Ty("float", 64)
    return None


# ---------------------------------------------------------------------------
# abstract values
# ---------------------------------------------------------------------------

class Num:
    __slots__ = ("lin", "isfloat", "ty")

    def __init__(self, lin, isfloat=False, ty=None):
        self.lin = lin
        self.isfloat = isfloat
        self.ty = ty

    def __repr__(self):
        return "Num(%s)" % show_lin(self.lin)


class Arr:
    """An array: kernel parameter, self.<attr>, or a local (np.zeros / np.frombuffer)."""
    __slots__ = ("name", "ety", "ndim", "origin", "length", "src")

    def __init__(self, name, ety=None, ndim=1, origin="param", length=None, src=None):
        self.name = name
        self.ety = ety
        self.ndim = ndim
        self.origin = origin      # 'param' | 'attr' | 'zeros' | 'frombuffer' | 'other'
        self.length = length      # Lin for 1-d locals
        self.src = src            # Bytes for frombuffer

    def __repr__(self):
        return "Arr(%s)" % self.name


class ArrSlice:
    """A partial index / slice of an array, e.g. lhh[row, col] or key_array[:key_len]."""
    __slots__ = ("arr", "idx", "memver")

    def __init__(self, arr, idx, memver):
        self.arr = arr
        self.idx = idx            # tuple of Num | ('slice', lo|None, hi|None)
        self.memver = memver

    def index_nums(self):
        return tuple(i for i in self.idx if isinstance(i, Num))

    def __repr__(self):
        return "ArrSlice(%s[%s])" % (self.arr.name, ", ".join(_show_idx(i) for i in self.idx))


def _show_idx(i):
    if isinstance(i, Num):
        return show_lin(i.lin)
    if isinstance(i, tuple) and i and i[0] == "slice":
        f = lambda x: "" if x is None else (x if isinstance(x, str) else show_lin(x))
        return "%s:%s" % (f(i[1]), f(i[2]))
    return str(i)


class Bytes:
    """A bytes value: a root (parameter or local) and a [start:stop) window into it."""
    __slots__ = ("root", "start", "stop", "length")

    def __init__(self, root, start, stop, length):
        self.root = root
        self.start = start      # Lin
        self.stop = stop        # Lin | None (= end of root)
        self.length = length    # Lin

    def __repr__(self):
        return "Bytes(%s[%s:%s])" % (self.root, show_lin(self.start), "" if self.stop is None else show_lin(self.stop))


class Bool:
    __slots__ = ("cond",)

    def __init__(self, cond):
        self.cond = cond


class Tup:
    __slots__ = ("items",)

    def __init__(self, items):
        self.items = tuple(items)


class Opaque:
    __slots__ = ("desc", "node")

    def __init__(self, desc, node=None):
        self.desc = desc
        self.node = node

    def __repr__(self):
        return "Opaque(%s)" % (self.desc,)


# ---------------------------------------------------------------------------
# conditions
# ---------------------------------------------------------------------------
# ('le', Lin) lin<=0 | ('eq', Lin) | ('ne', Lin) | ('atom', key, info) | ('not', c)
# ('and', [c..]) | ('or', [c..]) | ('true',) | ('false',) | ('flt', Lin)  lin < 0 over reals

def c_not(c):
    k = c[0]
    if k == "le":
        return ("le", -c[1] + 1, False) if not c[2] else ("flt", -c[1], True)
    if k == "flt":
        return ("le", -c[1], True)
    if k == "eq":
        return ("ne", c[1], c[2])
    if k == "ne":
        return ("eq", c[1], c[2])
    if k == "not":
        return c[1]
    if k == "and":
        return ("or", [c_not(x) for x in c[1]])
    if k == "or":
        return ("and", [c_not(x) for x in c[1]])
    if k == "true":
        return ("false",)
    if k == "false":
        return ("true",)
    return ("not", c)


def show_cond(c):
    k = c[0]
    if k == "le":
        return "%s <= 0" % show_lin(c[1])
    if k == "flt":
        return "%s < 0" % show_lin(c[1])
    if k == "eq":
        return "%s == 0" % show_lin(c[1])
    if k == "ne":
        return "%s != 0" % show_lin(c[1])
    if k == "atom":
        return "atom(%s)" % (c[1],)
    if k == "not":
        return "not(%s)" % show_cond(c[1])
    if k in ("and", "or"):
        return "(" + (" %s " % k).join(show_cond(x) for x in c[1]) + ")"
    return k


def cond_atoms(c, pos=True):
    """Yield (atom_cond, polarity) for every atom in c."""
    k = c[0]
    if k == "atom":
        yield c, pos
    elif k == "not":
        yield from cond_atoms(c[1], not pos)
    elif k in ("and", "or"):
        for x in c[1]:
            yield from cond_atoms(x, pos)


def conjuncts(c):
    """Top-level conjuncts of c (c itself if it is not an 'and')."""
    if c[0] == "and":
        out = []
        for x in c[1]:
            out.extend(conjuncts(x))
        return out
    return [c]


# ---------------------------------------------------------------------------
# state & events
# ---------------------------------------------------------------------------

class State:
    __slots__ = ("env", "facts", "nes", "atoms", "ors", "memver", "path", "loops", "dead")

    def __init__(self):
        self.env = {}
        self.facts = []
        self.nes = []
        self.atoms = {}
        self.ors = []
        self.memver = {}
        self.path = ()
        self.loops = ()
        self.dead = False

    def copy(self):
        s = State()
        s.env = dict(self.env)
        s.facts = list(self.facts)
        s.nes = list(self.nes)
        s.atoms = dict(self.atoms)
        s.ors = list(self.ors)
        s.memver = dict(self.memver)
        s.path = self.path
        s.loops = self.loops
        s.dead = self.dead
        return s


class Loop:
    __slots__ = ("node", "kind", "var", "varterm", "start", "stop", "step", "iterval", "assigned", "written", "head_env", "descending")

    def __init__(self, node, kind, var=None):
        self.node = node
        self.kind = kind     # 'range' | 'prange' | 'iter' | 'while' | 'other'
        self.var = var
        self.varterm = None
        self.start = self.stop = self.step = None
        self.iterval = None
        self.assigned = set()
        self.written = set()
        self.head_env = {}
        self.descending = False     # a count-down `while`: the indices of range(start, stop) visited from the top


class Event:
    """kind in: store, sub, cast, call, ret, raise, loopend, attrstore, branch, slicestore"""

    def __init__(self, kind, node, st, **kw):
        self.kind = kind
        self.node = node
        self.facts = tuple(st.facts)
        self.nes = tuple(st.nes)
        self.atoms = dict(st.atoms)
        self.ors = tuple(st.ors)
        self.path = st.path
        self.loops = st.loops
        self.env = st.env           # reference to the env dict at that time (copied on fork)
        self.memver = dict(st.memver)
        self.__dict__.update(kw)

    @property
    def line(self):
        return getattr(self.node, "lineno", 0)


# ---------------------------------------------------------------------------
# effects (E4, the part the walker itself needs)
# ---------------------------------------------------------------------------

def assigned_names(stmts):
    out = set()
    for s in stmts:
        for n in walk_no_nested(s):
            if isinstance(n, ast.Name) and isinstance(n.ctx, (ast.Store, ast.Del)):
                out.add(n.id)
            elif isinstance(n, ast.AugAssign) and isinstance(n.target, ast.Name):
                out.add(n.target.id)
    return out


def _root_name(node):
    """Root of a subscript/attribute chain: cms[row, b] -> 'cms'; self.cms[i] -> 'self.cms'."""
    while isinstance(node, ast.Subscript):
        node = node.value
    return dotted(node)


def direct_writes(stmts):
    """Names of arrays stored into by subscript assignment in these statements."""
    out = set()
    for s in stmts:
        for n in walk_no_nested(s):
            tgts = []
            if isinstance(n, ast.Assign):
                tgts = n.targets
            elif isinstance(n, (ast.AugAssign, ast.AnnAssign)):
                tgts = [n.target]
            for t in tgts:
                for e in (t.elts if isinstance(t, (ast.Tuple, ast.List)) else [t]):
                    if isinstance(e, ast.Subscript):
                        r = _root_name(e)
                        if r:
                            out.add(r)
    return out


class Effects:
    """Which array parameters a function writes, directly or through resolved callees."""

    def __init__(self, model):
        self.model = model
        self._cache = {}

    def written_params(self, func, _stack=()):
        key = func.key
        if key in self._cache:
            return self._cache[key]
        if key in _stack:
            return set()
        out = set()
        body = func.node.body
        params = set(func.params)
        # local aliases: name = param  (simple copies only)
        for r in direct_writes(body):
            if r in params:
                out.add(r)
        for n in walk_no_nested(func.node):
            if isinstance(n, ast.Call):
                callee = self.resolve(func, n)
                if callee is None:
                    # numpy in-place writers on a parameter
                    d = dotted(n.func) or ""
                    if d in ("np.copyto", "numpy.copyto") and n.args:
                        r = _root_name(n.args[0])
                        if r in params:
                            out.add(r)
                    continue
                w = self.written_params(callee, _stack + (key,))
                for i, a in enumerate(n.args):
                    if i < len(callee.params) and callee.params[i] in w:
                        r = _root_name(a)
                        if r in params:
                            out.add(r)
                for kw in n.keywords:
                    if kw.arg in w:
                        r = _root_name(kw.value)
                        if r in params:
                            out.add(r)
        self._cache[key] = out
        return out

    def resolve(self, func, call):
        if isinstance(call.func, ast.Name):
            return self.model.lookup_func(func.module, call.func.id)
        return None

    def call_writes(self, func, call):
        """Root names (in the caller) of arrays a call may write."""
        callee = self.resolve(func, call)
        out = set()
        if callee is None:
            d = dotted(call.func) or ""
            if d in ("np.copyto", "numpy.copyto") and call.args:
                r = _root_name(call.args[0])
                if r:
                    out.add(r)
            return out
        w = self.written_params(callee)
        for i, a in enumerate(call.args):
            if i < len(callee.params) and callee.params[i] in w:
                r = _root_name(a)
                if r:
                    out.add(r)
        for kw in call.keywords:
            if kw.arg in w:
                r = _root_name(kw.value)
                if r:
                    out.add(r)
        return out

    def written_in(self, func, stmts):
        out = set(direct_writes(stmts))
        for s in stmts:
            for n in walk_no_nested(s):
                if isinstance(n, ast.Call):
                    out |= self.call_writes(func, n)
        return out


# ---------------------------------------------------------------------------
# the walker
# ---------------------------------------------------------------------------

class Walker:
    def __init__(self, model, func, consts=None, cell_axioms=None, summaries=None,
                 loop_invariants=None, effects=None, attr_types=None, param_facts=None, no_inline=None):
        self.model = model
        self.func = func
        self.consts = consts or {}
        self.cell_axioms = cell_axioms or {}     # array root name -> fn(walker, st, cellterm, idx) -> [Lin<=0]
        self.summaries = summaries or {}         # callee name -> fn(walker, st, node, callee, args) -> Val | None
        self.loop_invariants = loop_invariants or []   # [(label, fn(walker, entry_env, env) -> Lin|None)]
        self.effects = effects or Effects(model)
        self.attr_types = attr_types or {}       # 'X' -> Ty for self.X (arrays: ndim>0)
        self.param_facts = param_facts           # fn(walker, st) -> None, adds facts at entry
        self.P = Prover()
        self.events = []
        self._buf = [self.events]
        self._ids = itertools.count(1)
        self._nstates = 0
        self.inv_report = []   # (loop line, label, kept?)
        self.notes = []
        self.inline_depth = 0
        self.root = func
        self._in_recheck = False
        self._sc = []          # conditions assumed by short-circuit evaluation at the current expression
        # the peer operand of a binary sketch method (merge(self, other)): same class as self by contract
        self.peers = {"other"}
        if func.cls is not None and not func.is_kernel and func.name == "merge" and len(func.params) == 2:
            self.peers.add(func.params[1])
        self.inlining = no_inline is not None      # None: every call stays a call event
        self.no_inline = no_inline if no_inline is not None else set()

    # -- terms ----------------------------------------------------------
    def fresh(self, kind, name, rng=(None, None), isfloat=False):
        t = (kind, name, next(self._ids))
        if rng != (None, None):
            self.P.ranges[t] = rng
        if isfloat:
            self.P.floats.add(t)
        return t

    def named(self, t, rng=(None, None), isfloat=False):
        if rng != (None, None) and t not in self.P.ranges:
            self.P.ranges[t] = rng
        if isfloat:
            self.P.floats.add(t)
        return t

    def emit(self, kind, node, st, **kw):
        ev = Event(kind, node, st, **kw)
        self._buf[-1].append(ev)
        return ev

    # -- entry ----------------------------------------------------------
    def run(self):
        f = self.func
        st = State()
        for p in f.params:
            if p == "self" and f.cls is not None and not f.is_static:
                st.env[p] = Opaque("self")
                continue
            ty = f.ptypes.get(p)
            st.env[p] = self.param_value(p, ty)
        if f.vararg:
            st.env[f.vararg] = Opaque("vararg")
        if f.kwarg:
            st.env[f.kwarg] = Opaque("kwarg")
        for p in f.kwonly:
            st.env[p] = self.param_value(p, None)
        if self.param_facts:
            self.param_facts(self, st)
        outs = self.block(f.body(), st)
        for s, kind, val in outs:
            if kind == "fall":
                self.emit("ret", f.node, s, value=None, implicit=True)
        return self.events

    def param_value(self, p, ty):
        if p in self.consts:
            return Num(Lin.const(self.consts[p]), ty=ty)
        if ty is None:
            ann = self.annotation(p)
            if ann == "bytes":
                ln = self.named(("len", p), (0, LEN_MAX))
                return Bytes(p, Lin.const(0), None, Lin.term(ln))
            if self.func.is_kernel:
                return Opaque("param:" + p)
            # untyped Python parameter: integer-valued only if annotated so (strict comparisons are tightened only for integers)
            isf = not (ann == "int" or (ann or "").startswith("int") or "uint" in (ann or ""))
            if ann is None:
                dv = self.default_of(p)
                isf = not (isinstance(dv, ast.Constant) and isinstance(dv.value, int) and not isinstance(dv.value, bool))
            return Num(Lin.term(self.named(("param", p), isfloat=isf)), isfloat=isf, ty=None)
        if ty.is_array:
            return Arr(p, ety=ty.scalar, ndim=ty.ndim, origin="param")
        if ty.kind in ("uint", "int"):
            return Num(Lin.term(self.named(("param", p), ty.range())), ty=ty)
        if ty.kind == "float":
            return Num(Lin.term(self.named(("param", p), isfloat=True)), isfloat=True, ty=ty)
        if ty.kind == "bytes":
            ln = self.named(("len", p), (0, LEN_MAX))
            return Bytes(p, Lin.const(0), None, Lin.term(ln))
        return Opaque("param:" + p)

    def default_of(self, p):
        a = self.func.node.args
        pos = a.posonlyargs + a.args
        defs = [None] * (len(pos) - len(a.defaults)) + list(a.defaults)
        for arg, d in zip(pos, defs):
            if arg.arg == p:
                return d
        for arg, d in zip(a.kwonlyargs, a.kw_defaults):
            if arg.arg == p:
                return d
        return None

    def annotation(self, p):
        a = self.func.node.args
        for arg in a.posonlyargs + a.args + a.kwonlyargs:
            if arg.arg == p and arg.annotation is not None:
                return unparse(arg.annotation)
        return None

    # -- blocks ---------------------------------------------------------
    def block(self, stmts, st):
        """Returns list of (state, exit_kind, value); exit_kind in fall/return/raise/break/continue."""
        live = [st]
        outs = []
        for s in stmts:
            nxt = []
            for cur in live:
                for r in self.stmt(s, cur):
                    if r[1] == "fall":
                        nxt.append(r[0])
                    else:
                        outs.append(r)
            live = nxt
            if not live:
                break
        outs.extend((s, "fall", None) for s in live)
        return outs

    def _count(self):
        self._nstates += 1
        if self._nstates > MAX_STATES:
            raise AnalysisError("%s: path explosion (> %d states)" % (self.func.key, MAX_STATES))

    def stmt(self, s, st):
        self._count()
        m = getattr(self, "s_" + type(s).__name__, None)
        if m is None:
            # unknown statement kinds are no-ops for the abstract state but invalidate what they assign
            for n in assigned_names([s]):
                st.env[n] = Opaque("assigned by %s" % type(s).__name__)
            return [(st, "fall", None)]
        return m(s, st)

    def s_Pass(self, s, st):
        return [(st, "fall", None)]

    s_Import = s_ImportFrom = s_Global = s_Nonlocal = s_Pass

    def s_Expr(self, s, st):
        callee = self.inline_target(s.value)
        if callee is not None:
            return [(s2, "raise" if val == ("raise",) else "fall", None) for s2, val in self.inline_call(s.value, callee, st)]
        self.ev(s.value, st)
        return [(st, "fall", None)]

    def s_Return(self, s, st):
        callee = self.inline_target(s.value) if s.value is not None else None
        if callee is not None:
            outs = []
            for s2, val in self.inline_call(s.value, callee, st):
                if val == ("raise",):
                    outs.append((s2, "raise", None))
                    continue
                if self.inline_depth == 0:
                    self.emit("ret", s, s2, value=val, implicit=False)
                outs.append((s2, "return", val))
            return outs
        v = self.ev(s.value, st) if s.value is not None else None
        if self.inline_depth == 0:
            self.emit("ret", s, st, value=v, implicit=False)
        return [(st, "return", v)]

    def s_Raise(self, s, st):
        if s.exc is not None:
            self.ev(s.exc, st)       # the exception object is built first (attribute loads / calls inside it are events)
        exc = s.exc
        name = dotted(exc.func) if isinstance(exc, ast.Call) else dotted(exc) if exc is not None else None
        self.emit("raise", s, st, exc_name=name)
        return [(st, "raise", None)]

    def s_Break(self, s, st):
        return [(st, "break", None)]

    def s_Continue(self, s, st):
        return [(st, "continue", None)]

    def s_Delete(self, s, st):
        for t in s.targets:
            if isinstance(t, ast.Name):
                st.env.pop(t.id, None)
            else:
                self.emit("delete", s, st, target=t)
        return [(st, "fall", None)]

    def s_Assert(self, s, st):
        return [(st, "fall", None)]

    # -- inlining of helper kernels (statement level) -----------------
    def inline_target(self, call):
        """The callee if `call` is a call to a package kernel that should be walked inline (a private helper that no rule treats as a unit)."""
        if not isinstance(call, ast.Call) or not isinstance(call.func, ast.Name) or self.inline_depth >= 3 or not self.root.is_kernel or not self.inlining:
            return None
        callee = self.model.lookup_func(self.func.module, call.func.id)
        if callee is None or not callee.is_kernel or callee is self.func or callee.name in self.no_inline or callee.name in self.summaries:
            return None
        if any(isinstance(a, ast.Starred) for a in call.args) or call.keywords:
            return None
        if len(call.args) != len(callee.params):
            return None
        return callee

    def inline_call(self, call, callee, st):
        """Walk `callee` inline from state `st`; returns [(state, value)] for each of its normal exits."""
        args = [self.ev(a, st) for a in call.args]
        self.emit("call", call, st, callee=callee, name=callee.name, args=args, kwargs={}, result=None, inlined=True, envsnap=dict(st.env))
        saved_env, saved_func = st.env, self.func
        env = {}
        for p, a in zip(callee.params, args):
            ty = callee.ptypes.get(p)
            if isinstance(a, Num) and ty is not None and ty.kind in ("uint", "int") and not ty.is_array and not (a.ty is not None and a.ty == ty):
                # a typed scalar parameter truncates: transparent only if provably in range (or the value already has that very type)
                lo, hi = ty.range()
                if not (self.P.prove_le0(a.lin - hi, st.facts) and self.P.prove_le0(Lin.const(lo) - a.lin, st.facts)):
                    a_in = a
                    a = Num(Lin.term(self.fresh("cast", repr(ty), ty.range())), ty=ty)
                    # (recorded so that dependency queries can look through the truncation to the argument)
                    self.emit("cast", call, st, target=ty, arg=a_in, result=a, fromfloat=False, inrange=None)
            env[p] = a
        env["^caller"] = saved_env        # not a Python name: lets rules see the caller's variables from events inside the callee
        st.env = env
        self.func = callee
        self.inline_depth += 1
        try:
            outs = self.block(callee.body(), st)
        finally:
            self.inline_depth -= 1
            self.func = saved_func
        res = []
        for s2, kind, val in outs:
            if kind in ("fall", "return"):
                s2.env = dict(saved_env)
                # arrays may have been rebound only inside the callee's env; memory versions/facts carry over
                rty = callee.rtype
                if kind == "fall":
                    val = Opaque("None")
                elif isinstance(val, Num) and rty is not None and rty.kind in ("uint", "int") and not (val.ty is not None and val.ty == rty):
                    # (a value that already has the declared return type is handed back as it is)
                    lo, hi = rty.range()
                    if not (self.P.prove_le0(val.lin - hi, s2.facts) and self.P.prove_le0(Lin.const(lo) - val.lin, s2.facts)):
                        v_in = val
                        val = Num(Lin.term(self.fresh("cast", repr(rty), rty.range())), ty=rty)
                        self.emit("cast", call, s2, target=rty, arg=v_in, result=val, fromfloat=False, inrange=None)
                res.append((s2, val))
            elif kind == "raise":
                s2.env = dict(saved_env)
                res.append((s2, ("raise",)))
        return res

    def s_Assign(self, s, st):
        callee = self.inline_target(s.value)
        if callee is not None:
            outs = []
            for s2, val in self.inline_call(s.value, callee, st):
                if val == ("raise",):
                    outs.append((s2, "raise", None))
                    continue
                for t in s.targets:
                    self.assign(t, val, s2, s)
                outs.append((s2, "fall", None))
            return outs
        v = self.ev(s.value, st)
        for t in s.targets:
            self.assign(t, v, st, s)
        return [(st, "fall", None)]

    def s_AnnAssign(self, s, st):
        if s.value is not None:
            v = self.ev(s.value, st)
            self.assign(s.target, v, st, s)
        return [(st, "fall", None)]

    def s_AugAssign(self, s, st):
        cur = self.ev(_as_load(s.target), st)
        rhs = self.ev(s.value, st)
        v = self.binop(s.op, cur, rhs, st, s)
        self.assign(s.target, v, st, s, aug=(s.op, cur, rhs))
        return [(st, "fall", None)]

    def synth_aug(self, old, v):
        """`x = x + d` / `a[i] = a[i] + d` written out is the same update as `x += d`: (Add, old, d) when new - old does not mention old."""
        if not (isinstance(old, Num) and isinstance(v, Num)) or old.isfloat != v.isfloat:
            return None
        oterms = set(old.lin.terms())
        if not oterms:
            return None
        d = v.lin - old.lin
        if oterms & set(d.terms()) or not (oterms <= set(v.lin.terms())):
            return None
        return (ast.Add(), old, Num(d, isfloat=v.isfloat))

    def assign(self, t, v, st, node, aug=None):
        if isinstance(t, ast.Name):
            if aug is None:
                aug = self.synth_aug(st.env.get(t.id), v)
            if st.loops:
                self.emit("assign", node, st, name=t.id, old=st.env.get(t.id), value=v, aug=aug)
            st.env[t.id] = v
        elif isinstance(t, (ast.Tuple, ast.List)):
            if isinstance(v, Tup) and len(v.items) == len(t.elts):
                for e, x in zip(t.elts, v.items):
                    self.assign(e, x, st, node)
            else:
                for e in t.elts:
                    self.assign(e, Opaque("unpack"), st, node)
        elif isinstance(t, ast.Subscript):
            self.store(t, v, st, node, aug)
        elif isinstance(t, ast.Attribute):
            d = dotted(t)
            self.emit("attrstore", node, st, target=d, value=v, aug=aug)
            if d:
                st.env["@" + d] = v
        else:
            pass

    def store(self, t, v, st, node, aug):
        base = self.ev(t.value, st)
        idx = self.index(t.slice, st)
        if isinstance(base, Arr):
            full = len(idx) == base.ndim and all(isinstance(i, Num) for i in idx)
            old = None
            if full and base.ety is not None and base.ety.kind in ("uint", "int"):
                old = self.cell(base, idx, st)
            ver = st.memver.get(base.name, 0)
            if aug is None and old is not None:
                aug = self.synth_aug(Num(Lin.term(old)), v)
            if full:
                self.emit("store", node, st, arr=base, idx=idx, value=v, old=old, aug=aug, target=t)
            else:
                self.emit("slicestore", node, st, arr=base, idx=idx, value=v, aug=aug, target=t)
            st.memver[base.name] = ver + 1
        elif isinstance(base, ArrSlice):
            self.emit("slicestore", node, st, arr=base.arr, idx=base.idx + idx, value=v, aug=aug, target=t)
            st.memver[base.arr.name] = st.memver.get(base.arr.name, 0) + 1
        else:
            if aug is None and isinstance(node, ast.Assign) and isinstance(node.value, ast.BinOp) and isinstance(node.value.op, (ast.Add, ast.Sub)):
                # `o.a[i] = o.a[i] + d` written out: the same update as `o.a[i] += d` (d re-evaluated only if it is call-free but for casts)
                bo = node.value
                tgt = unparse(t, 400)
                for cur_n, d_n in ((bo.left, bo.right),) + (((bo.right, bo.left),) if isinstance(bo.op, ast.Add) else ()):
                    if unparse(cur_n, 400) == tgt and all(cast_target(c.func) is not None for c in ast.walk(d_n) if isinstance(c, ast.Call)):
                        buf = []
                        self._buf.append(buf)          # swallow the events of the re-evaluation
                        try:
                            dv = self.ev(d_n, st)
                        finally:
                            self._buf.pop()
                        aug = (bo.op, Opaque(("old", tgt)), dv)
                        break
            self.emit("otherstore", node, st, base=base, idx=idx, value=v, aug=aug, target=t)

    # -- control flow ---------------------------------------------------
    def s_If(self, s, st):
        c = self.cond(s.test, st)
        self.emit("branch", s, st, cond=c)
        outs = []
        for pol, body in ((True, s.body), (False, s.orelse)):
            b = st.copy()
            cc = c if pol else c_not(c)
            self.assume(b, cc)
            if b.dead:
                continue
            b.path = b.path + ((s, pol, cc),)
            if body:
                outs.extend(self.block(body, b))
            else:
                outs.append((b, "fall", None))
        return outs

    def s_With(self, s, st):
        for it in s.items:
            v = self.ev(it.context_expr, st)
            if it.optional_vars is not None:
                self.assign(it.optional_vars, v, st, s)
        return self.block(s.body, st)

    def s_Try(self, s, st):
        outs = []
        b0 = st.copy()
        b0.path = b0.path + ((s, True, ("true",)),)
        body_outs = self.block(s.body, b0)
        # handlers start from a state that forgot everything the body may have changed
        h0 = st.copy()
        # a name assigned only by the LAST statement of the body (`x = f(...)`) still has its earlier value in every handler: either
        # an earlier statement raised, or that statement's right-hand side did, and then the assignment did not happen
        killed = assigned_names(s.body)
        last = s.body[-1] if s.body else None
        if isinstance(last, ast.Assign) and all(isinstance(t, ast.Name) for t in last.targets):
            killed = killed - ({t.id for t in last.targets} - assigned_names(s.body[:-1]))
        self.kill(h0, killed, self.root_names(self.effects.written_in(self.func, s.body), st))
        for hi, h in enumerate(s.handlers):
            hs = h0.copy()
            hs.path = hs.path + ((s, ("handler", hi), ("true",)),)
            if h.name:
                hs.env[h.name] = Opaque("exception")
            outs.extend(self.block(h.body, hs))
        for r in body_outs:
            if r[1] == "fall" and s.orelse:
                outs.extend(self.block(s.orelse, r[0]))
            else:
                outs.append(r)
        if s.finalbody:
            fin = []
            for r in outs:
                for r2 in self.block(s.finalbody, r[0]):
                    fin.append(r2 if r2[1] != "fall" else (r2[0], r[1], r[2]))
            outs = fin
        return outs

    def root_names(self, arrays, st):
        return {(st.env[a].name if isinstance(st.env.get(a), Arr) else a) for a in arrays}

    def kill(self, st, names, arrays):
        for n in names:
            v = st.env.get(n)
            if isinstance(v, (Arr, Bytes)) and n in self.func.params and n not in names:
                continue
            if n in st.env:
                st.env[n] = self.havoc(n, st.env[n])
        for a in arrays:      # names as the root knows them (see root_names)
            st.memver[a] = st.memver.get(a, 0) + 1000 + next(self._ids)

    def havoc(self, name, old):
        if isinstance(old, Num):
            t = self.fresh("var", name, isfloat=old.isfloat)
            return Num(Lin.term(t), isfloat=old.isfloat)
        if isinstance(old, Bool):
            return Bool(("atom", ("havoc", name, next(self._ids)), None))
        return Opaque("havoc:" + name)

    def s_For(self, s, st):
        lp = self.loop_descr(s, st)
        # a loop over a small constant range is unrolled exactly
        if lp.kind == "range" and lp.start.is_const() and lp.stop.is_const() and lp.step.is_const() and lp.step.k > 0 \
                and isinstance(s.target, ast.Name) and not s.orelse and 0 <= (lp.stop.k - lp.start.k) <= 8 * lp.step.k \
                and not any(isinstance(n, (ast.Break, ast.Continue)) for b in s.body for n in walk_no_nested(b)):
            live = [st]
            outs = []
            for i in range(lp.start.k, lp.stop.k, lp.step.k):
                nxt = []
                for cur in live:
                    cur.env[s.target.id] = Num(Lin.const(i))
                    for r in self.block(s.body, cur):
                        if r[1] == "fall":
                            nxt.append(r[0])
                        else:
                            outs.append(r)
                live = nxt
            outs.extend((x, "fall", None) for x in live)
            return outs
        return self.run_loop(s, st, lp, s.body, s.orelse)

    def countdown_while(self, s, st):
        """`i = n ... while i > 0: i -= 1; BODY(i)` visits i = n-1, ..., 0: the set of indices of `for i in range(n)`, in descending order.
        Returned as a range loop over [0, n) with `descending` set (rules for which the order matters look at the flag) and the body
        without its leading decrement; None if the loop is not of that form."""
        t = s.test
        if not (isinstance(t, ast.Compare) and len(t.ops) == 1 and not s.orelse and len(s.body) >= 2):
            return None
        var = None
        if isinstance(t.left, ast.Name) and isinstance(t.comparators[0], ast.Constant):
            c = t.comparators[0].value
            if (isinstance(t.ops[0], (ast.Gt, ast.NotEq)) and c == 0) or (isinstance(t.ops[0], ast.GtE) and c == 1):
                var = t.left.id
        elif isinstance(t.comparators[0], ast.Name) and isinstance(t.left, ast.Constant):
            c = t.left.value
            if (isinstance(t.ops[0], (ast.Lt, ast.NotEq)) and c == 0) or (isinstance(t.ops[0], ast.LtE) and c == 1):
                var = t.comparators[0].id
        elif isinstance(t.left, ast.Name) and isinstance(t.comparators[0], ast.Call) and len(t.comparators[0].args) == 1 \
                and isinstance(t.comparators[0].args[0], ast.Constant) and t.comparators[0].args[0].value == 0 and isinstance(t.ops[0], (ast.Gt, ast.NotEq)):
            var = t.left.id           # `i > uint64(0)`
        if var is None:
            return None
        first = s.body[0]
        dec = None
        if isinstance(first, ast.AugAssign) and isinstance(first.op, ast.Sub) and isinstance(first.target, ast.Name) and first.target.id == var:
            dec = first.value
        elif isinstance(first, ast.Assign) and len(first.targets) == 1 and isinstance(first.targets[0], ast.Name) and first.targets[0].id == var \
                and isinstance(first.value, ast.BinOp) and isinstance(first.value.op, ast.Sub) and isinstance(first.value.left, ast.Name) \
                and first.value.left.id == var:
            dec = first.value.right
        if dec is None:
            return None
        dv = self.ev(dec, st)
        if not (isinstance(dv, Num) and dv.lin == Lin.const(1)):
            return None
        others = [n for b in s.body[1:] for n in walk_no_nested(b)
                  if (isinstance(n, ast.Name) and n.id == var and isinstance(n.ctx, ast.Store)) or isinstance(n, ast.Continue)]
        if others:
            return None
        start = st.env.get(var)
        if not isinstance(start, Num):
            return None
        lp = Loop(s, "range", var)
        lp.start, lp.stop, lp.step = Lin.const(0), start.lin, Lin.const(1)
        lp.descending = True
        return lp

    def s_While(self, s, st):
        cd = self.countdown_while(s, st)
        if cd is not None:
            outs = self.run_loop(s, st, cd, s.body[1:], s.orelse)
            for x in outs:
                if x[1] == "fall" and isinstance(x[0].env.get(cd.var), Num):
                    x[0].env[cd.var] = Num(Lin.const(0))          # after a complete count-down the counter is 0
            return outs
        cl = self.counter_while(s, st)
        if cl is not None:
            if cl.start.is_const() and cl.stop.is_const() and cl.stop.k <= cl.start.k and not s.orelse:
                return [(st, "fall", None)]          # `while i < n` with constant i >= n on this path: the body never runs
            return self.run_loop(s, st, cl, s.body, s.orelse)
        lp = Loop(s, "while")
        return self.run_loop(s, st, lp, s.body, s.orelse, test=s.test)

    def counter_while(self, s, st):
        """`i = a ... while i < n: body; i += 1`  ==  `for i in range(a, n)` when i is changed only by the final increment."""
        t = s.test
        if not (isinstance(t, ast.Compare) and len(t.ops) == 1 and not s.orelse):
            return None
        var = bound = None
        incl = False          # `i <= n` / `n >= i`: the bound itself is visited (range(a, n + 1))
        if isinstance(t.ops[0], (ast.Lt, ast.LtE)) and isinstance(t.left, ast.Name):
            var, bound, incl = t.left.id, t.comparators[0], isinstance(t.ops[0], ast.LtE)
        elif isinstance(t.ops[0], (ast.Gt, ast.GtE)) and isinstance(t.comparators[0], ast.Name):
            var, bound, incl = t.comparators[0].id, t.left, isinstance(t.ops[0], ast.GtE)
        if var is None or not s.body:
            return None
        last = s.body[-1]
        inc_ok = False
        if isinstance(last, ast.AugAssign) and isinstance(last.op, ast.Add) and isinstance(last.target, ast.Name) and last.target.id == var:
            inc_ok = True
            inc = last.value
        elif isinstance(last, ast.Assign) and isinstance(last.targets[0], ast.Name) and last.targets[0].id == var \
                and isinstance(last.value, ast.BinOp) and isinstance(last.value.op, ast.Add):
            l, r = last.value.left, last.value.right
            if isinstance(l, ast.Name) and l.id == var:
                inc_ok, inc = True, r
            elif isinstance(r, ast.Name) and r.id == var:
                inc_ok, inc = True, l
        if not inc_ok:
            return None
        iv = self.ev(inc, st)
        if not (isinstance(iv, Num) and iv.lin == Lin.const(1)):
            return None
        # (a `continue` would skip the final increment; a `break` merely leaves the loop, as it does in the for-spelling)
        others = [n for b in s.body[:-1] for n in walk_no_nested(b)
                  if (isinstance(n, ast.Name) and n.id == var and isinstance(n.ctx, ast.Store)) or isinstance(n, ast.Continue)]
        if others:
            return None
        bnames = {n.id for n in ast.walk(bound) if isinstance(n, ast.Name)}
        if bnames & assigned_names(s.body):
            return None
        start = st.env.get(var)
        bv = self.ev(bound, st)
        if not (isinstance(start, Num) and isinstance(bv, Num)):
            return None
        lp = Loop(s, "range", var)
        lp.start, lp.stop, lp.step = start.lin, (bv.lin + 1) if incl else bv.lin, Lin.const(1)
        return lp

    def loop_descr(self, s, st):
        it = s.iter
        var = s.target.id if isinstance(s.target, ast.Name) else None
        if isinstance(it, ast.Call) and dotted(it.func) in ("range", "prange", "numba.prange", "nb.prange"):
            kind = "prange" if dotted(it.func).endswith("prange") else "range"
            args = [self.ev(a, st) for a in it.args]
            if all(isinstance(a, Num) for a in args) and 1 <= len(args) <= 3 and not it.keywords:
                lp = Loop(s, kind, var)
                if len(args) == 1:
                    lp.start, lp.stop, lp.step = Lin.const(0), args[0].lin, Lin.const(1)
                elif len(args) == 2:
                    lp.start, lp.stop, lp.step = args[0].lin, args[1].lin, Lin.const(1)
                else:
                    lp.start, lp.stop, lp.step = args[0].lin, args[1].lin, args[2].lin
                return lp
            lp = Loop(s, "other", var)
            lp.iterval = Opaque("range(?)")
            return lp
        lp = Loop(s, "iter", var)
        lp.iterval = self.ev(it, st)
        return lp

    def run_loop(self, s, st, lp, body, orelse, test=None):
        assigned = assigned_names(body)
        if isinstance(s, ast.For):
            assigned |= assigned_names([ast.Assign(targets=[s.target], value=ast.Constant(0))])
        written = self.effects.written_in(self.func, body)
        # arrays are named as the walked root knows them (an inlined callee's parameter denotes the caller's array)
        written = self.root_names(written, st)
        lp.assigned, lp.written = assigned, written
        entry_env = dict(st.env)
        literal = isinstance(s, ast.For) and isinstance(s.iter, ast.Call) and all(isinstance(a_, ast.Constant) for a_ in s.iter.args)
        if lp.kind in ("range", "prange") and lp.step == Lin.const(1) and not literal and test is None and isinstance(s, ast.For) \
                and self.P.prove_le0(lp.stop - lp.start, st.facts):
            # on this path the range is empty (the facts entail stop <= start): the loop is a no-op here, nothing is forgotten
            if orelse:
                return self.block(orelse, st)
            return [(st, "fall", None)]
        self.emit("loopstart", s, st, loop=lp, envsnap=dict(st.env))
        head = st.copy()
        self.kill(head, assigned, written)
        # a loop-carried scalar keeps its machine type when every value that reaches the loop head has it (Numba unifies the types of
        # all definitions of a variable): assumed first, verified on the back edges below, dropped and re-walked otherwise
        keep_ty = {}
        ranged_here = {}
        if self.func.is_kernel or self.root.is_kernel:
            for n_ in assigned:
                v0, vh = st.env.get(n_), head.env.get(n_)
                if isinstance(v0, Num) and v0.ty is not None and isinstance(vh, Num) and vh is not v0 and vh.ty is None and not v0.isfloat:
                    keep_ty[n_] = v0.ty
                    head.env[n_] = Num(vh.lin, isfloat=vh.isfloat, ty=v0.ty)
                    # ... and with the type its value range (withdrawn below together with the type)
                    t_ = vh.lin.single_term()
                    if t_ is not None and vh.lin == Lin.term(t_) and t_ not in self.P.ranges and v0.ty.kind in ("uint", "int"):
                        self.P.ranges[t_] = v0.ty.range()
                        ranged_here[n_] = t_
        # Houdini over the rule-supplied candidate invariants
        cands = []
        for label, fn in self.loop_invariants:
            try:
                g = fn(self, entry_env, st.env)
            except KeyError:
                g = None
            if g is not None and self.P.prove_le0(g, st.facts):
                cands.append((label, fn))
        while True:
            buf = []
            self._buf.append(buf)
            try:
                b = head.copy()
                for label, fn in cands:
                    g = fn(self, entry_env, b.env)
                    if g is not None:
                        b.facts.append(g)
                self.enter_loop(s, lp, b, test)
                lp.head_env = dict(b.env)
                b.loops = b.loops + (lp,)
                res = [] if b.dead else self.block(body, b)
            finally:
                self._buf.pop()
            bad = set()
            for rs, kind, _ in res:
                if kind in ("fall", "continue"):
                    for label, fn in cands:
                        g = fn(self, entry_env, rs.env)
                        if g is None or not self.P.prove_le0(g, rs.facts):
                            bad.add(label)
            lost = set()
            for rs, kind, _ in res:
                if kind in ("fall", "continue"):
                    for n_, ty_ in keep_ty.items():
                        vb = rs.env.get(n_)
                        if not (isinstance(vb, Num) and vb.ty == ty_):
                            lost.add(n_)
            if lost:
                for n_ in lost:
                    del keep_ty[n_]
                    if n_ in ranged_here:
                        self.P.ranges.pop(ranged_here.pop(n_), None)
                    vh = head.env[n_]
                    head.env[n_] = Num(vh.lin, isfloat=vh.isfloat, ty=None)
                continue
            if not bad:
                break
            cands = [c for c in cands if c[0] not in bad]
        for label, fn in self.loop_invariants:
            self.inv_report.append((getattr(s, "lineno", 0), label, any(c[0] == label for c in cands)))
        self._buf[-1].extend(buf)
        outs = []
        for rs, kind, val in res:
            if kind in ("fall", "continue"):
                self.emit("loopend", s, rs, loop=lp)
            elif kind == "break":
                self.emit("loopbreak", s, rs, loop=lp)
                x = rs
                x.loops = st.loops
                outs.append((x, "fall", None))
            else:
                outs.append((rs, kind, val))
        after = head.copy()
        for label, fn in cands:
            g = fn(self, entry_env, after.env)
            if g is not None:
                after.facts.append(g)
        if test is not None:
            c = self.cond(test, after)
            if c == ("true",):
                after.dead = True        # `while True`: never left through its test
            elif not any(k == "break" for _, k, _ in res):
                self.assume(after, c_not(c))
        if after.dead:
            return outs        # `while True`: the loop is left only through break / return / raise
        if orelse:
            outs.extend(self.block(orelse, after))
        else:
            outs.append((after, "fall", None))
        return outs

    def enter_loop(self, s, lp, b, test):
        if lp.kind in ("range", "prange"):
            # loop variable: start <= i <= stop-1 (step 1), or only the bounds we can state
            t = self.fresh("var", lp.var or "_")
            lp.varterm = t
            i = Lin.term(t)
            step = lp.step
            if step.is_const() and step.k > 0:
                b.facts.append(lp.start - i)            # start - i <= 0
                b.facts.append(i - lp.stop + 1)         # i <= stop-1
                lo = self.P.lo(lp.start)
                hi = self.P.hi(lp.stop - 1)
                self.P.ranges[t] = (lo, hi)
                # an empty range on this path (stop <= start entailed): the body never runs here
                if step.k == 1 and self.P.prove_le0(lp.stop - lp.start, b.facts[:-2]):
                    b.dead = True
            if lp.var:
                b.env[lp.var] = Num(i)
        elif lp.kind == "iter":
            v = lp.iterval
            if isinstance(s.target, ast.Name):
                if isinstance(v, Arr) and v.ndim == 1 and v.ety is not None and v.ety.kind in ("uint", "int"):
                    t = self.fresh("elem", v.name, v.ety.range())
                    lp.varterm = t
                    b.env[s.target.id] = Num(Lin.term(t), ty=v.ety)
                else:
                    b.env[s.target.id] = Opaque("element of %r" % (v,))
            else:
                for n in assigned_names([ast.Assign(targets=[s.target], value=ast.Constant(0))]):
                    b.env[n] = Opaque("loop target")
        elif lp.kind == "other":
            for n in assigned_names([ast.Assign(targets=[s.target], value=ast.Constant(0))]):
                b.env[n] = Opaque("loop target")
        if test is not None:
            c = self.cond(test, b)
            self.assume(b, c)

    # -- facts ----------------------------------------------------------
    def assume(self, st, c):
        """Add `c` to the state; afterwards earlier disequalities / disjunctions are re-examined (a flag set from one comparison and
        tested again later must not leave an infeasible path alive)."""
        self._assume(st, c)
        if st.dead or self._in_recheck or not (st.nes or st.ors) or c[0] in ("atom", "ne", "true"):
            return
        self._in_recheck = True
        try:
            for l in st.nes:
                if self.P.prove_le0(l, st.facts) and self.P.prove_le0(-l, st.facts):
                    st.dead = True
                    return
            ors = list(st.ors)
            for o in ors:
                alive = []
                for x in o[1]:
                    t = st.copy()
                    self._assume(t, x)
                    if not t.dead:
                        alive.append(x)
                if not alive:
                    st.dead = True
                    return
                if len(alive) == 1 and len(o[1]) > 1:
                    st.ors = [y for y in st.ors if y is not o]
                    self._assume(st, alive[0])
                    if st.dead:
                        return
        finally:
            self._in_recheck = False

    def _assume(self, st, c):
        k = c[0]
        if k == "false":
            st.dead = True
            return
        if k == "true":
            return
        if k == "le":
            l = c[1]
            if l.is_const():
                if l.k > 0:
                    st.dead = True
                return
            # infeasible if the negation is provable
            if not c[2] and self.P.prove_le0(-l + 1, st.facts):
                st.dead = True
                return
            if c[2]:
                lo = self.P.lo(l)
                if lo is not None and lo > 0:
                    st.dead = True
                    return
            st.facts.append(l)
        elif k == "flt":
            l = c[1]
            if l.is_const():
                if l.k >= 0:
                    st.dead = True
                return
            lo = self.P.lo(l)
            if lo is not None and lo >= 0:
                st.dead = True
                return
            st.facts.append(l)       # weaker (<=), sound
        elif k == "eq":
            l = c[1]
            if l.is_const():
                if l.k != 0:
                    st.dead = True
                return
            if not c[2] and (self.P.prove_le0(l + 1, st.facts) or self.P.prove_le0(-l + 1, st.facts)):
                st.dead = True
                return
            st.facts.append(l)
            st.facts.append(-l)
        elif k == "ne":
            l = c[1]
            if l.is_const():
                if l.k == 0:
                    st.dead = True
                return
            le, ge = self.P.prove_le0(l, st.facts), self.P.prove_le0(-l, st.facts)
            if le and ge:
                st.dead = True
                return
            st.nes.append(l)
            # integers: x != c together with x <= c gives x <= c - 1 (and symmetrically)
            if not (len(c) > 2 and c[2]):
                if le:
                    st.facts.append(l + 1)
                elif ge:
                    st.facts.append(-l + 1)
        elif k == "and":
            for x in c[1]:
                self._assume(st, x)
                if st.dead:
                    return
        elif k == "or":
            alive = []
            for x in c[1]:
                t = st.copy()
                self._assume(t, x)
                if not t.dead:
                    alive.append(x)
            if not alive:
                st.dead = True
            elif len(alive) == 1:
                self._assume(st, alive[0])
            else:
                st.ors.append(("or", alive))
        elif k == "atom":
            if st.atoms.get(c[1]) is False:
                st.dead = True
            st.atoms[c[1]] = True
        elif k == "not" and c[1][0] == "atom":
            if st.atoms.get(c[1][1]) is True:
                st.dead = True
            st.atoms[c[1][1]] = False
        elif k == "false":
            st.dead = True

    def refine(self, ev, conds):
        """A state rebuilt from an event snapshot with extra assumptions; pending disjunctions are re-examined."""
        st = State()
        st.env = dict(ev.env)
        st.facts = list(ev.facts)
        st.nes = list(ev.nes)
        st.atoms = dict(ev.atoms)
        st.memver = dict(ev.memver)
        st.path = ev.path
        st.loops = ev.loops
        for c in conds:
            self.assume(st, c)
        for o in ev.ors:
            self.assume(st, o)
        return st

    def cond(self, node, st):
        v = self.ev(node, st)
        return self.as_cond(v, node)

    def as_cond(self, v, node=None):
        if isinstance(v, Bool):
            return v.cond
        if isinstance(v, Num):
            if v.lin.is_const():
                return ("true",) if v.lin.k != 0 else ("false",)
            return ("ne", v.lin, v.isfloat)
        return ("atom", ("truth", unparse(node) if node is not None else repr(v)), v)

    # -- expressions ----------------------------------------------------
    def ev(self, e, st):
        m = getattr(self, "e_" + type(e).__name__, None)
        if m is None:
            return Opaque(type(e).__name__, e)
        return m(e, st)

    def e_Constant(self, e, st):
        v = e.value
        if isinstance(v, bool):
            return Bool(("true",) if v else ("false",))
        if isinstance(v, int):
            return Num(Lin.const(v))
        if isinstance(v, float):
            if v == int(v) and abs(v) < 2 ** 53:
                return Num(Lin.const(int(v)), isfloat=True)
            return Num(Lin.const(v), isfloat=True)
        if isinstance(v, bytes):
            return Bytes(("const", v), Lin.const(0), None, Lin.const(len(v)))
        return Opaque(("const", v), e)

    def e_Name(self, e, st):
        if e.id in st.env:
            return st.env[e.id]
        if e.id in ("True", "False"):
            return Bool(("true",) if e.id == "True" else ("false",))
        return Opaque(("global", e.id), e)

    def e_Attribute(self, e, st):
        d = dotted(e)
        if d and d.count(".") == 1 and isinstance(e.value, ast.Name) and e.value.id in self.peers and isinstance(e.ctx, ast.Load):
            # a load from the peer operand of a binary method: which decisions (path + short-circuit context) dominate it
            self.emit("attrload", e, st, obj=e.value.id, attr=e.attr, sc=tuple(self._sc))
        if d and ("@" + d) in st.env:
            return st.env["@" + d]
        if d and d.count(".") == 1 and isinstance(e.value, ast.Name):
            obj, attr = d.split(".")
            base = st.env.get(obj)
            if isinstance(base, Opaque) and base.desc in ("self",) or obj == "self" or obj in self.peers:
                ty = self.attr_types.get(attr)
                if ty is not None and ty.is_array:
                    return Arr(d, ety=ty.scalar, ndim=ty.ndim, origin="attr")
                if ty is not None and ty.kind in ("uint", "int"):
                    return Num(Lin.term(self.named(("attr", obj, attr), ty.range())), ty=ty)
                if ty is not None and ty.kind == "float":
                    return Num(Lin.term(self.named(("attr", obj, attr), isfloat=True)), isfloat=True, ty=ty)
                return Num(Lin.term(self.named(("attr", obj, attr))))
        v = self.ev(e.value, st)
        if isinstance(v, (Arr, ArrSlice)) and e.attr in ("nbytes", "size", "shape", "dtype"):
            return Opaque(("arrattr", getattr(v, "name", None) or v.arr.name, e.attr), e)
        return Opaque(("attr", d or e.attr), e)

    def e_Tuple(self, e, st):
        return Tup([self.ev(x, st) for x in e.elts])

    e_List = e_Tuple

    def e_JoinedStr(self, e, st):
        for v in e.values:
            if isinstance(v, ast.FormattedValue):
                self.ev(v.value, st)
        return Opaque("fstring", e)

    def e_Dict(self, e, st):
        return Opaque("dict", e)

    def e_UnaryOp(self, e, st):
        v = self.ev(e.operand, st)
        if isinstance(e.op, ast.Not):
            return Bool(c_not(self.as_cond(v, e.operand)))
        if isinstance(e.op, ast.USub) and isinstance(v, Num):
            return Num(-v.lin, v.isfloat)
        if isinstance(e.op, ast.UAdd) and isinstance(v, Num):
            return v
        return self.opaque_num(("unary", type(e.op).__name__, _vkey(v)), isfloat=getattr(v, "isfloat", False))

    def e_BoolOp(self, e, st):
        cs = []
        isand = isinstance(e.op, ast.And)
        depth = len(self._sc)
        for x in e.values:
            c = self.as_cond(self.ev(x, st), x)
            cs.append(c)
            self._sc.append(c if isand else c_not(c))     # the next operand is evaluated only under this
        del self._sc[depth:]
        return Bool(("and" if isand else "or", cs))

    def e_Compare(self, e, st):
        left = self.ev(e.left, st)
        conds = []
        for op, r in zip(e.ops, e.comparators):
            right = self.ev(r, st)
            conds.append(self.compare(op, left, right, e))
            left = right
        return Bool(conds[0] if len(conds) == 1 else ("and", conds))

    def compare(self, op, a, b, node):
        if isinstance(a, Num) and isinstance(b, Num):
            # integer-valued operands (ints cast to float) compare like integers
            fl = self.P.is_float(a.lin) or self.P.is_float(b.lin)
            d = a.lin - b.lin
            if isinstance(op, ast.Lt):
                return ("flt", d, True) if fl else ("le", d + 1, False)
            if isinstance(op, ast.LtE):
                return ("le", d, fl)
            if isinstance(op, ast.Gt):
                return ("flt", -d, True) if fl else ("le", -d + 1, False)
            if isinstance(op, ast.GtE):
                return ("le", -d, fl)
            if isinstance(op, ast.Eq):
                return ("eq", d, fl)
            if isinstance(op, ast.NotEq):
                return ("ne", d, fl)
        if isinstance(op, (ast.Is, ast.IsNot, ast.Eq, ast.NotEq)):
            neg = isinstance(op, (ast.IsNot, ast.NotEq))
            ka, kb = _vkey(a), _vkey(b)
            key = ("cmp", "is" if isinstance(op, (ast.Is, ast.IsNot)) else "eq") + tuple(sorted([repr(ka), repr(kb)]))
            at = ("atom", key, {"a": a, "b": b, "node": node})
            return ("not", at) if neg else at
        return ("atom", ("cmp", type(op).__name__, repr(_vkey(a)), repr(_vkey(b))), {"a": a, "b": b, "node": node})

    def e_IfExp(self, e, st):
        c = self.cond(e.test, st)
        self._sc.append(c)
        a = self.ev(e.body, st)
        self._sc[-1] = c_not(c)
        b = self.ev(e.orelse, st)
        self._sc.pop()
        if isinstance(a, Bool) and isinstance(b, Bool):
            return Bool(("or", [("and", [c, a.cond]), ("and", [c_not(c), b.cond])]))
        fl = getattr(a, "isfloat", False) or getattr(b, "isfloat", False)
        return self.opaque_num(("ifexp", unparse(e)), isfloat=fl)

    def opaque_num(self, key, rng=(None, None), isfloat=False):
        t = ("opq", repr(key))
        self.named(t, rng, isfloat)
        return Num(Lin.term(t), isfloat=isfloat)

    def e_BinOp(self, e, st):
        a = self.ev(e.left, st)
        b = self.ev(e.right, st)
        return self.binop(e.op, a, b, st, e)

    def binop(self, op, a, b, st, node):
        if not (isinstance(a, Num) and isinstance(b, Num)):
            return Opaque(("binop", type(op).__name__, repr(_vkey(a)), repr(_vkey(b))), node)
        fl = a.isfloat or b.isfloat
        # two operands of one unsigned machine type give that type again under Numba (the walker models the value as an integer;
        # the type tag only says that handing it to a parameter of that very type converts nothing)
        same_u = a.ty if (a.ty is not None and a.ty == b.ty and a.ty.kind == "uint" and not a.ty.is_array) else None
        if isinstance(op, ast.Add):
            return Num(a.lin + b.lin, fl, ty=same_u)
        if isinstance(op, ast.Sub):
            r = Num(a.lin - b.lin, fl, ty=same_u)
            if not fl:
                self.emit("sub", node, st, a=a, b=b, result=r)
            return r
        if isinstance(op, ast.Mult):
            if a.lin.is_const():
                return Num(b.lin.scale(a.lin.k), fl)
            if b.lin.is_const():
                return Num(a.lin.scale(b.lin.k), fl)
            if a.lin.is_const() and b.lin.is_const():
                return Num(Lin.const(a.lin.k * b.lin.k), fl)
        if isinstance(op, ast.Pow) and a.lin.is_const() and b.lin.is_const() and not fl \
                and isinstance(b.lin.k, int) and 0 <= b.lin.k <= 128:
            return Num(Lin.const(a.lin.k ** b.lin.k))
        if isinstance(op, ast.LShift) and a.lin.is_const() and b.lin.is_const() and not fl and 0 <= b.lin.k <= 128:
            return Num(Lin.const(a.lin.k << b.lin.k))
        opn = type(op).__name__
        ka, kb = a.lin.key(), b.lin.key()
        if isinstance(op, (ast.Mult, ast.BitAnd, ast.BitOr, ast.BitXor)) and repr(kb) < repr(ka):
            ka, kb = kb, ka   # commutative: canonical operand order
        t = ("op", opn, ka, kb)
        self.P.ops[t] = (a.lin, b.lin)      # operands, for dependency closures
        rng = (None, None)
        if not fl:
            if isinstance(op, ast.Mod):
                hb = self.P.hi(b.lin)
                lb = self.P.lo(b.lin)
                if lb is not None and lb >= 0:
                    rng = (0, None if hb is None else hb - 1)
            elif isinstance(op, ast.BitAnd):
                his = [h for h in (self.P.hi(a.lin), self.P.hi(b.lin)) if h is not None]
                los = [self.P.lo(a.lin), self.P.lo(b.lin)]
                if his and all(l is not None and l >= 0 for l in los):
                    rng = (0, min(his))
                elif his and any(l is not None and l >= 0 and h is not None for l, h in
                                 ((self.P.lo(a.lin), self.P.hi(a.lin)), (self.P.lo(b.lin), self.P.hi(b.lin)))):
                    rng = (0, None)
            elif isinstance(op, (ast.RShift, ast.FloorDiv)):
                la, ha = self.P.lo(a.lin), self.P.hi(a.lin)
                if la is not None and la >= 0:
                    rng = (0, ha)
                    if b.lin.is_const() and isinstance(b.lin.k, int) and b.lin.k >= 0 and ha is not None:
                        rng = ((la >> b.lin.k, ha >> b.lin.k) if isinstance(op, ast.RShift) else
                               ((la // b.lin.k, ha // b.lin.k) if b.lin.k > 0 else rng))
            elif isinstance(op, ast.Mult):
                la, ha, lb, hb = self.P.lo(a.lin), self.P.hi(a.lin), self.P.lo(b.lin), self.P.hi(b.lin)
                if None not in (la, lb) and la >= 0 and lb >= 0:
                    rng = (la * lb, None if None in (ha, hb) else ha * hb)
        if isinstance(op, ast.Div):
            # positive constant over a positive range
            la, ha, lb, hb = self.P.lo(a.lin), self.P.hi(a.lin), self.P.lo(b.lin), self.P.hi(b.lin)
            if lb is None:
                # a lower bound may come from the facts (validated parameter)
                if self.P.prove_le0(Lin.const(1) - b.lin, st.facts):
                    lb = 1
            if hb is None and self.P.prove_le0(b.lin - (2 ** 64 - 1), st.facts):
                hb = 2 ** 64 - 1
            if None not in (la, ha, lb) and la >= 0 and lb > 0:
                rng = ((la / hb) if hb else 0.0, ha / lb)
        self.named(t, rng, fl)
        r = Num(Lin.term(t), fl)
        if isinstance(op, ast.Mod) and not fl and rng[0] == 0:
            st.facts.append(r.lin - b.lin + 1)     # x % w <= w-1
        return r

    # -- subscripts -----------------------------------------------------
    def index(self, sl, st):
        elts = sl.elts if isinstance(sl, ast.Tuple) else [sl]
        out = []
        for x in elts:
            if isinstance(x, ast.Slice):
                lo = self.ev(x.lower, st) if x.lower is not None else None
                hi = self.ev(x.upper, st) if x.upper is not None else None
                out.append(("slice", lo.lin if isinstance(lo, Num) else (None if lo is None else "?"),
                            hi.lin if isinstance(hi, Num) else (None if hi is None else "?")))
            else:
                out.append(self.ev(x, st))
        return tuple(out)

    def cell(self, arr, idx, st):
        ver = st.memver.get(arr.name, 0)
        t = ("cell", arr.name, ver, tuple(i.lin.key() for i in idx))
        if t not in self.P.ranges and arr.ety is not None:
            self.P.ranges[t] = arr.ety.range()
            if arr.ety.kind == "float":
                self.P.floats.add(t)
        ax = self.cell_axioms.get(arr.name)
        if ax:
            for f in ax(self, st, t, idx) or ():
                if f not in st.facts:
                    st.facts.append(f)
        return t

    def e_Subscript(self, e, st):
        base = self.ev(e.value, st)
        idx = self.index(e.slice, st)
        if isinstance(base, Arr):
            if len(idx) == base.ndim and all(isinstance(i, Num) for i in idx):
                t = self.cell(base, idx, st)
                fl = base.ety is not None and base.ety.kind == "float"
                if isinstance(e.ctx, ast.Load):
                    self.emit("read", e, st, arr=base, idx=idx, term=t)
                return Num(Lin.term(t), isfloat=fl, ty=base.ety)
            return ArrSlice(base, idx, st.memver.get(base.name, 0))
        if isinstance(base, ArrSlice):
            return ArrSlice(base.arr, base.idx + idx, base.memver)
        if isinstance(base, Bytes):
            if len(idx) == 1 and isinstance(idx[0], tuple) and idx[0][0] == "slice":
                return self.bytes_slice(base, idx[0], st)
            if len(idx) == 1 and isinstance(idx[0], Num):
                t = ("byte", repr(base.root), (base.start + idx[0].lin).key())
                self.named(t, (0, 255))
                v = Num(Lin.term(t), ty=Ty("uint", 8))
                return v
        if isinstance(base, Tup) and len(idx) == 1 and isinstance(idx[0], Num) and idx[0].lin.is_const():
            k = idx[0].lin.k
            if 0 <= k < len(base.items):
                return base.items[k]
        return Opaque(("subscript", repr(_vkey(base)), tuple(_show_idx(i) if not isinstance(i, Opaque) else repr(i.desc) for i in idx)), e)

    def bytes_slice(self, base, sl, st):
        lo, hi = sl[1], sl[2]
        if lo == "?" or hi == "?":
            ln = self.fresh("len", "slice", (0, LEN_MAX))
            return Bytes(("unknown", next(self._ids)), Lin.const(0), None, Lin.term(ln))
        lo = lo if lo is not None else Lin.const(0)
        start = base.start + lo
        if hi is None:
            stop = base.stop
            length = self.clamp0(base.length - lo, st)
        else:
            stop = base.start + hi
            # length = clamp(min(hi, len) - lo)
            m = self.minmax("min", hi, base.length, st)
            length = self.clamp0(m - lo, st)
        return Bytes(base.root, start, stop, length)

    def clamp0(self, l, st):
        lo = self.P.lo(l)
        if lo is not None and lo >= 0:
            return l
        if self.P.prove_le0(-l, st.facts):
            return l
        return self.minmax("max", l, Lin.const(0), st)

    def minmax(self, kind, a, b, st):
        # simplify when the order is provable
        if self.P.prove_le0(a - b, st.facts):
            return a if kind == "min" else b
        if self.P.prove_le0(b - a, st.facts):
            return b if kind == "min" else a
        ka, kb = sorted([a.key(), b.key()], key=repr)
        t = (kind, ka, kb)
        self.P.minmax[t] = (kind, a, b)
        la, ha, lb, hb = self.P.lo(a), self.P.hi(a), self.P.lo(b), self.P.hi(b)
        if kind == "min":
            lo = None if None in (la, lb) else min(la, lb)
            hi = min([h for h in (ha, hb) if h is not None], default=None)
        else:
            hi = None if None in (ha, hb) else max(ha, hb)
            lo = max([l for l in (la, lb) if l is not None], default=None)
        self.P.ranges[t] = (lo, hi)
        if self.P.is_float(a) or self.P.is_float(b):
            self.P.floats.add(t)
        r = Lin.term(t)
        fs = [r - a, r - b] if kind == "min" else [a - r, b - r]
        for f in fs:
            if f not in st.facts:
                st.facts.append(f)
        return r

    # -- calls ----------------------------------------------------------
    def e_Call(self, e, st):
        fn = e.func
        d = dotted(fn)
        # scalar constructors / casts
        ct = cast_target(fn)
        if ct is not None and len(e.args) == 1 and not e.keywords:
            av = self.ev(e.args[0], st)
            if d == "int" and not self.func.is_kernel and isinstance(av, Num) and not self.P.is_float(av.lin):
                return Num(av.lin)          # Python int(): arbitrary precision, value preserving
            if not self.func.is_kernel and isinstance(av, Num) and not self.P.is_float(av.lin) and not av.isfloat \
                    and ct.kind in ("uint", "int") and d not in ("int", "float"):
                # NumPy (>= 2) scalar constructors outside Numba are value preserving or raise OverflowError:
                # past this point the value is in range
                lo, hi = ct.range()
                self.emit("cast", e, st, target=ct, arg=av, result=av, fromfloat=False, inrange="checked")
                st.facts.append(av.lin - hi)
                st.facts.append(Lin.const(lo) - av.lin)
                return Num(av.lin, False, ct)
            return self.cast(ct, av, st, e)
        if d == "len" and len(e.args) == 1:
            v = self.ev(e.args[0], st)
            if isinstance(v, Bytes):
                return Num(v.length)
            if isinstance(v, Arr) and v.length is not None:
                return Num(v.length)
            t = ("len", repr(_vkey(v)))
            self.named(t, (0, LEN_MAX))
            return Num(Lin.term(t))
        if d == "bool" and len(e.args) == 1 and not e.keywords:
            v = self.ev(e.args[0], st)
            if isinstance(v, Bool):
                return v                      # bool(a != b) is that comparison's truth value
            if isinstance(v, Num):
                return Bool(self.as_cond(v, e.args[0]))
            return Bool(self.as_cond(v, e.args[0]))
        if d in ("min", "max") and len(e.args) == 1 and not e.keywords and isinstance(e.args[0], (ast.Tuple, ast.List)) and len(e.args[0].elts) == 2:
            e = ast.copy_location(ast.Call(func=e.func, args=list(e.args[0].elts), keywords=[]), e)      # min((a, b)) is min(a, b)
        if d in ("min", "max") and len(e.args) == 2 and not e.keywords:
            a, b = self.ev(e.args[0], st), self.ev(e.args[1], st)
            if isinstance(a, Num) and isinstance(b, Num):
                return Num(self.minmax(d, a.lin, b.lin, st), a.isfloat or b.isfloat)
            return Opaque((d, repr(_vkey(a)), repr(_vkey(b))), e)
        if d in ("np.all", "numpy.all", "all") and len(e.args) == 1:
            inner = e.args[0]
            if isinstance(inner, ast.Compare) and len(inner.ops) == 1 and isinstance(inner.ops[0], ast.Eq):
                a = self.ev(inner.left, st)
                b = self.ev(inner.comparators[0], st)
                ks = tuple(sorted([repr(_vkey(a, st)), repr(_vkey(b, st))]))
                return Bool(("atom", ("all_eq",) + ks, {"a": a, "b": b, "node": e}))
            v = self.ev(inner, st)
            return Bool(("atom", ("all", repr(_vkey(v, st))), {"a": v, "node": e}))
        if d in ("np.frombuffer", "numpy.frombuffer"):
            src = self.ev(e.args[0], st) if e.args else None
            dt = self.dtype_of(e.args[1] if len(e.args) > 1 else next((k.value for k in e.keywords if k.arg == "dtype"), None))
            if isinstance(src, Bytes):
                isz = (dt.bits // 8) if dt is not None and dt.bits else None
                length = src.length if isz == 1 else None
                a = Arr(("frombuffer", next(self._ids)), ety=dt, ndim=1, origin="frombuffer", length=length, src=src)
                a.name = "frombuffer#%d" % a.name[1]
                self.emit("frombuffer", e, st, src=src, dtype=dt, arr=a)
                return a
            return Opaque(("frombuffer", repr(_vkey(src))), e)
        if d in ("np.zeros", "numpy.zeros", "np.empty", "numpy.empty", "np.ones", "numpy.ones"):
            shape = self.ev(e.args[0], st) if e.args else None
            dt = self.dtype_of(e.args[1] if len(e.args) > 1 else next((k.value for k in e.keywords if k.arg == "dtype"), None))
            if isinstance(shape, Num):
                a = Arr("zeros#%d" % next(self._ids), ety=dt, ndim=1, origin=d.split(".")[-1], length=shape.lin)
                return a
            if isinstance(shape, Tup):
                a = Arr("zeros#%d" % next(self._ids), ety=dt, ndim=len(shape.items), origin=d.split(".")[-1])
                return a
            return Opaque((d,), e)
        if isinstance(fn, ast.Attribute) and fn.attr == "tobytes" and not e.args and not e.keywords:
            v = self.ev(fn.value, st)
            if isinstance(v, ArrSlice):
                last = v.idx[-1] if v.idx else None
                nums = v.index_nums()
                if isinstance(last, tuple) and last[0] == "slice" and last[1] is None and isinstance(last[2], Lin) and len(v.idx) == v.arr.ndim:
                    # X[r, c, :n].tobytes()  ==  bytes(X[r, c, :n])
                    root = ("arrbytes", v.arr.name, tuple(i.lin.key() for i in nums))
                    return Bytes(root, Lin.const(0), last[2], last[2])
                if len(nums) == len(v.idx) == v.arr.ndim - 1:
                    # X[r, c].tobytes(): the whole slot; its length is the array's last dimension
                    root = ("arrbytes", v.arr.name, tuple(i.lin.key() for i in nums))
                    ln = self.named(("rowlen", v.arr.name), (0, LEN_MAX))
                    return Bytes(root, Lin.const(0), None, Lin.term(ln))
        if d == "bytes" and len(e.args) == 1:
            v = self.ev(e.args[0], st)
            if isinstance(v, ArrSlice):
                # bytes(lhh[row, col, :n]) -> a bytes value rooted at that cell
                last = v.idx[-1] if v.idx else None
                if isinstance(last, tuple) and last[0] == "slice" and last[1] is None and isinstance(last[2], Lin):
                    root = ("arrbytes", v.arr.name, tuple(i.lin.key() for i in v.index_nums()))
                    return Bytes(root, Lin.const(0), last[2], last[2])   # length assumes n <= row length (rule checks)
            ln = self.fresh("len", "bytes", (0, LEN_MAX))
            return Bytes(("bytes", next(self._ids)), Lin.const(0), None, Lin.term(ln))
        # argument-less method call on self: a pure observer of the object state (n_added(), n_records())
        if isinstance(fn, ast.Attribute) and isinstance(fn.value, ast.Name) and fn.value.id in ("self", "other") \
                and not e.args and not e.keywords and not self.func.is_kernel:
            self.emit("call", e, st, callee=None, name=d, args=[], kwargs={}, result=None)
            return Num(Lin.term(self.named(("mcall", fn.value.id, fn.attr))))
        # resolved callee in the package
        callee = None
        if isinstance(fn, ast.Name) and fn.id not in st.env:
            callee = self.model.lookup_func(self.func.module, fn.id)
        args = [self.ev(a, st) for a in e.args]
        kwargs = {k.arg: self.ev(k.value, st) for k in e.keywords}
        if callee is not None:
            return self.call_resolved(e, st, callee, args, kwargs)
        ev = self.emit("call", e, st, callee=None, name=d, args=args, kwargs=kwargs, result=None, envsnap=(dict(st.env) if isinstance(e.func, ast.Name) and e.func.id in st.env else None))
        # unresolved calls may write arrays passed to np.copyto
        for r in self.effects.call_writes(self.func, e):
            st.memver[r] = st.memver.get(r, 0) + 1
        res = self.extern_result(d, e, args, st)
        ev.result = res
        return res

    def extern_result(self, d, e, args, st):
        if d in ("np.log", "np.exp", "np.interp", "np.sqrt", "numpy.log", "numpy.exp", "np.random.rand"):
            t = self.fresh("fcall", d, isfloat=True)
            return Num(Lin.term(t), isfloat=True)
        if d in ("np.count_nonzero", "numpy.count_nonzero"):
            t = self.fresh("icall", d, (0, None))
            return Num(Lin.term(t))
        return Opaque(("call", d, next(self._ids)), e)

    def call_resolved(self, e, st, callee, args, kwargs):
        ev = self.emit("call", e, st, callee=callee, name=callee.name, args=args, kwargs=kwargs, result=None,
                       envsnap=dict(st.env))
        for r in self.effects.call_writes(self.func, e):
            v0 = st.env.get(r)
            if isinstance(v0, Arr):
                r = v0.name
            st.memver[r] = st.memver.get(r, 0) + 1
        res = None
        sm = self.summaries.get(callee.name)
        if sm is not None:
            res = sm(self, st, e, callee, args)
        if res is None:
            res = self.typed_result(callee.rtype, callee.name, st)
        ev.result = res
        return res

    def typed_result(self, ty, name, st):
        if ty is None:
            return Opaque(("call", name, next(self._ids)))
        if ty.kind in ("uint", "int"):
            return Num(Lin.term(self.fresh("call", name, ty.range())), ty=ty)
        if ty.kind == "float":
            return Num(Lin.term(self.fresh("call", name, isfloat=True)), isfloat=True, ty=ty)
        if ty.kind == "tuple":
            return Tup([self.typed_result(t, name, st) for t in ty.items])
        if ty.kind == "void":
            return Opaque("None")
        return Opaque(("call", name, next(self._ids)))

    def dtype_of(self, node):
        if node is None:
            return None
        d = dotted(node)
        if d:
            last = d.split(".")[-1]
            if last in NP_DTYPES:
                return NP_DTYPES[last]
        return None

    def cast(self, ty, v, st, node):
        if not isinstance(v, Num):
            if ty.kind in ("uint", "int"):
                t = self.fresh("cast", repr(ty), ty.range())
                return Num(Lin.term(t), ty=ty)
            if ty.kind == "float":
                return Num(Lin.term(self.fresh("cast", repr(ty), isfloat=True)), isfloat=True, ty=ty)
            return Opaque(("cast", repr(ty)), node)
        if ty.kind == "float":
            # int -> float is value preserving for the magnitudes met here (< 2**53 not checked: floats are never
            # used to discharge integer goals)
            return Num(v.lin, True, ty)
        fl = v.isfloat or self.P.is_float(v.lin)
        lo, hi = ty.range()
        if fl:
            # float -> int truncates toward zero; result r: 0 <= r <= v when v >= 0 (fact added only if v>=0 provable)
            t = self.fresh("trunc", repr(ty), ty.range())
            r = Num(Lin.term(t), ty=ty)
            self.emit("cast", node, st, target=ty, arg=v, result=r, fromfloat=True, inrange=None)
            if self.P.prove_le0(-v.lin, st.facts):
                st.facts.append(r.lin - v.lin)      # trunc(v) <= v
            return r
        inr = bool(self.P.prove_le0(v.lin - hi, st.facts)) and bool(self.P.prove_le0(Lin.const(lo) - v.lin, st.facts))
        if inr:
            self.emit("cast", node, st, target=ty, arg=v, result=v, fromfloat=False, inrange=True)
            return Num(v.lin, False, ty)
        t = self.fresh("cast", repr(ty), ty.range())
        r = Num(Lin.term(t), ty=ty)
        self.emit("cast", node, st, target=ty, arg=v, result=r, fromfloat=False, inrange=False)
        return r


def _as_load(t):
    import copy
    n = copy.copy(t)
    n.ctx = ast.Load()
    return n


def _vkey(v, st=None):
    """A hashable identity for a value (used for atom keys / opaque terms)."""
    if isinstance(v, Num):
        return ("num", v.lin.key())
    if isinstance(v, Arr):
        return ("arr", v.name)
    if isinstance(v, ArrSlice):
        return ("arrslice", v.arr.name, v.memver, tuple(_show_idx(i) for i in v.idx))
    if isinstance(v, Bytes):
        return ("bytes", repr(v.root), v.start.key(), None if v.stop is None else v.stop.key())
    if isinstance(v, Tup):
        return ("tup",) + tuple(_vkey(x) for x in v.items)
    if isinstance(v, Bool):
        return ("bool", show_cond(v.cond))
    if isinstance(v, Opaque):
        return ("opaque", repr(v.desc))
    return ("?", repr(v))
