"""Table / protocol agreement rules: merge guards (C15), save/load (C10, C20), shared-memory layout (C16),
delegation and n-gram windows (C12)."""
from __future__ import annotations

import ast
import copy

from .facts import (COUNTMIN, SKETCH_CLASSES, array_alloc, const_int, facts_of, init_attr_defs, param_rebinds, scalar_ctor)
from .flow import NP_DTYPES, Arr, Bytes, Num, Opaque, Tup, c_not, conjuncts, show_cond
from .lin import Lin, show_lin
from .model import AnalysisError, Ty, call_name, calls_in, dotted, resolve_temps, self_attr, unparse, walk_no_nested
from .model import comes_before, is_inside
from .rules_arith import agg, fact_strs, group_by_node, on_path, src

# ---------------------------------------------------------------------------
# C15  merge guards
# ---------------------------------------------------------------------------

GUARD_EXEMPT = {"phi": "query-time parameter only: it does not shape the tables, sketches with different phi merge soundly",
                "shared_memory": "placement, not a parameter of the sketch"}
DERIVED_OK = {"base", "m", "alpha"}    # functions of compared parameters: comparing them too refuses nothing compatible
DISCRIMINATOR = "uint_maxval"


def required_guard_attrs(F, cls):
    ctor = F.ctor(cls)
    req = [p for p in ctor.params if p not in ("self",) and p not in GUARD_EXEMPT]
    if cls.module.short == "countmin":
        req.append(DISCRIMINATOR)
    return req


def rule_mergeguard(ctx, classes=SKETCH_CLASSES):
    F = facts_of(ctx)
    for cls in F.classes(classes):
        m = cls.methods.get("merge")
        if m is None:
            # inherited merge: the defining class's guard is checked there; an inherited guard cannot know new parameters
            inh = cls.resolve("merge")
            req = set(required_guard_attrs(F, cls))
            got = set(required_guard_attrs(F, inh.cls)) if inh else set()
            ctx.ob("guard-set", (cls.module.relpath, cls.name), cls.node, "%s inherits merge" % cls.name,
                   "an inherited merge guard compares every parameter of this class", req <= got,
                   "" if req <= got else "inherited guard cannot compare %s" % sorted(req - got))
            continue
        other = m.params[1] if len(m.params) > 1 else "other"
        req = required_guard_attrs(F, cls)
        w = F.walk(m)
        kcalls = [e for e in w.events if e.kind == "call" and e.callee is not None and e.callee.is_kernel]
        raises = [e for e in w.events if e.kind == "raise"]
        site = kcalls[0].node if kcalls else m.node

        def decisions(ev, sc=()):
            """The non-trivial conditions known to hold at `ev`: branch decisions of its path + short-circuit context."""
            out = []
            for (_, _, cc) in ev.path:
                if isinstance(cc, tuple) and cc and cc[0] not in ("true",):
                    out.append(cc)
            out.extend(sc)
            return out

        def known_equal(ev, sc=()):
            eq = set()
            for cc in decisions(ev, sc):
                for c in conjuncts(cc):
                    x = _attr_pair(c, other)
                    if x:
                        eq.add(x)
            return eq

        def differing(cc):
            """Attributes whose inequality `cc` asserts (as a disjunction of self.X != other.X), or None if cc is something else."""
            if cc[0] == "or":
                out = []
                for x in cc[1]:
                    d = differing(x)
                    if d is None:
                        return None
                    out.extend(d)
                return out
            x = _attr_pair(c_not(cc), other)
            return [x] if x else None

        # ---- guard-set (soundness): the kernel is reached only when every required parameter compared equal
        if not kcalls:
            # calls the model cannot resolve (a kernel reached through a value: a field of a local, a parameter): not decided
            unres = [e for e in w.events if e.kind == "call" and e.callee is None and isinstance(e.node, ast.Call)
                     and isinstance(e.node.func, ast.Attribute) and isinstance(e.node.func.value, ast.Name) and e.node.func.value.id not in ("self", other, "np")]
            ctx.ob("guard-first", m, site, "kernel call in %s" % m.qualname, "merge() reaches its merge kernel", None if unres else False,
                   "merge() calls `%s`, which the analysis cannot resolve to a kernel" % unparse(unres[0].node.func, 40) if unres else "no kernel call")
            if unres:
                continue
        else:
            ctx.ob("guard-first", m, site, "kernel call in %s" % m.qualname, "merge() reaches its merge kernel", True)
        # a guard evaluated by a loop the normaliser could not unroll, or through getattr with a computed name, is not read: a
        # comparison that was not found there is not thereby missing
        unread_guard = any(isinstance(n, (ast.While, ast.For)) for n in walk_no_nested(m.node)) or \
            any(isinstance(n, ast.Call) and dotted(n.func) == "getattr" and len(n.args) >= 2 and not isinstance(n.args[1], ast.Constant) for n in walk_no_nested(m.node))
        for a in req:
            res = []
            for k in kcalls:
                okk = a in known_equal(k)
                res.append(((None if unread_guard and not okk else okk), "self.%s == %s.%s was decided on the path" % (a, other, a) if okk else
                            "`%s` is not compared on a path that reaches the kernel: incompatible sketches merge silently" % a
                            + (" (the guard runs in a loop / through getattr the analysis does not read)" if unread_guard else ""), fact_strs(k)))
            agg(ctx, "guard-set", m, site, "self.%s != %s.%s" % (a, other, a), "sketches differing in `%s` are refused" % a, res)
        # ---- guard-set (completeness): a refusal happens only because a required parameter differs
        res, compared = [], set()
        for r in raises:
            ds = [cc for cc in decisions(r) if not all(_attr_pair(c, other) for c in conjuncts(cc))]
            bad = None
            unread_hit = False
            if not ds:
                bad = "raises although every compared parameter agrees"
            for cc in ds:
                for c in conjuncts(cc):
                    if _attr_pair(c, other):
                        continue
                    d = differing(c)
                    if d is None:
                        bad = "unrecognised guard term %s" % show_cond(c)
                        if unread_guard:
                            unread_hit = True
                    else:
                        compared.update(d)
                        extra = [x for x in d if x not in req and x not in DERIVED_OK]
                        if extra:
                            bad = "extra comparison(s) %s refuse compatible sketches" % extra
            res.append(((None if (bad is not None and unread_hit) else bad is None), bad or "refused because a required parameter differs", fact_strs(r)))
        for k in kcalls:
            compared |= known_equal(k)
        agg(ctx, "guard-set", m, raises[0].node if raises else m.node, "guard of %s compares %s" % (m.qualname, sorted(compared)),
            "sketches that agree on the required parameters are never refused", res or [(False, "merge() never refuses", [])])
        # ---- guard-first: a refusal is a TypeError raised before anything is written
        for r in raises:
            ctx.ob("guard-first", m, r.node, "raise %s" % r.exc_name, "a refused merge raises TypeError", r.exc_name == "TypeError",
                   "" if r.exc_name == "TypeError" else "raises %s" % r.exc_name)
        res = []
        for r in raises:
            pre = on_path(w.events, r)
            eff = [x for x in pre if x.kind in ("store", "slicestore", "attrstore", "otherstore", "delete")
                   or (x.kind == "call" and x.callee is not None and x.callee.is_kernel)
                   or (x.kind == "call" and x.callee is None and _effectful_call(x))]
            res.append((not eff, "nothing is written before the refusal" if not eff else
                        "`%s` runs before the refusal: a refused merge is not a no-op" % unparse(eff[0].node, 60), fact_strs(r)))
        agg(ctx, "guard-first", m, raises[0].node if raises else m.node, "refusal paths of %s" % m.qualname,
            "the compatibility guard comes first: nothing is computed into the sketch or written before a refusal",
            res or [(False, "merge() never refuses", [])])
        # (a write between the guard and the kernel on the accepting path is no concern of this property: only what precedes a
        # refusal is -- the obligation above)
        # ---- guard-order (count-min): attributes a linear sketch lacks are read only once the counter types are known to agree
        if cls.module.short == "countmin":
            base_attrs = {d.attr for d in init_attr_defs(F.ctor(ctx.model.cls("countmin", "CountMinLinear")))}
            loads = [e for e in w.events if e.kind == "attrload" and e.obj == other and e.attr not in base_attrs]
            res = []
            for e in loads:
                okk = DISCRIMINATOR in known_equal(e, e.sc)
                res.append((okk, "%s.%s is read after uint_maxval compared equal" % (other, e.attr) if okk else
                            "%s.%s is evaluated where %s.uint_maxval may differ: a log/linear pair raises AttributeError instead of TypeError"
                            % (other, e.attr, other), fact_strs(e)))
            if loads:
                agg(ctx, "guard-order", m, loads[0].node, "reads of log-only attributes of `%s` in %s" % (other, m.qualname),
                    "the counter-type discriminator is compared before attributes a linear sketch does not have "
                    "(so a log/linear pair raises TypeError, not AttributeError)", res)
        # ---- ctor-attr
        defs = {}
        for d in F.attr_defs(cls):
            defs.setdefault(d.attr, []).append(d)
        for a in req:
            ds = defs.get(a, [])
            if a == DISCRIMINATOR:
                cc = F.class_ceiling(cls)
                okk = cc is not None and cc[1] == 2 ** cc[0].bits - 1
                ctx.ob("ctor-attr", F.ctor(cls), cc[2] if cc else F.ctor(cls).node, "self.%s" % a,
                       "discriminator is the type-max constant of the counter type", bool(okk))
                continue
            okk = bool(ds)
            why = "attribute never assigned in __init__"
            for d in ds:
                sc = scalar_ctor(d.value)
                if not (sc and isinstance(sc[1], ast.Name) and sc[1].id == a):
                    v_ = d.value
                    unknown_conv = isinstance(v_, ast.Call) and len(v_.args) == 1 and isinstance(v_.args[0], ast.Name) and v_.args[0].id == a \
                        and not v_.keywords and sc is None
                    okk = None if (unknown_conv and okk is not False) else False
                    why = ("self.%s = %s: the conversion is a callable the analysis cannot name" % (a, unparse(d.value, 50)) if unknown_conv else
                           "self.%s = %s is not a NumPy scalar built from the parameter `%s`" % (a, unparse(d.value, 50), a))
            # the name read there must still be the caller's argument: a rebinding that replaces a legal value (a falsy 0 taken for
            # "not given") makes differently requested sketches compare equal
            for rb in param_rebinds(F.ctor(cls).node, a) if okk else ():
                if rb[0] == "truthy-default" and const_int(rb[2]) != 0:
                    okk, why = False, ("`%s` replaces every falsy `%s` (a legal 0 as well as None) before it is recorded: a sketch requested "
                                       "with 0 silently gets the default and then merges with default sketches" % (unparse(rb[1], 60), a))
                    break
                if rb[0] == "other":
                    okk, why = None, "the parameter `%s` is rebound by `%s` before it is recorded" % (a, unparse(rb[1], 60))
            ctx.ob("ctor-attr", F.ctor(cls), ds[0].stmt if ds else F.ctor(cls).node, "self.%s = np.T(%s)" % (a, a),
                   "compared attribute is the constructor parameter as a NumPy scalar (value comparison)", okk, "" if okk else why)


def _effectful_call(ev):
    """A call to something that is not a known-pure builtin/constructor (used on refusal paths only)."""
    name = ev.name or ""
    last = name.split(".")[-1]
    nd = getattr(ev, "node", None)
    # a method of a string literal (`" | ".join(names)`, `"...{}".format(x)`) builds a message
    if isinstance(nd, ast.Call) and isinstance(nd.func, ast.Attribute) and isinstance(nd.func.value, ast.Constant) and isinstance(nd.func.value.value, str):
        return False
    if name in ("tuple", "list", "sorted", "set", "frozenset", "dict", "zip", "enumerate", "range", "reversed", "sum"):
        return False
    if last in ("TypeError", "ValueError", "str", "repr", "format", "isinstance", "type", "len", "int", "float", "bool", "getattr", "hasattr",
                "uint8", "uint16", "uint32", "uint64", "int64", "float64", "min", "max", "abs", "all", "any", "array_equal"):
        return False
    return True


def _attr_pair(c, other):
    """'X' if c is  self.X == other.X  (as eq over attr terms or as an eq-atom)."""
    if c[0] == "eq":
        lin = c[1]
        ts = list(lin.c.items())
        if len(ts) == 2 and lin.k == 0 and {v for _, v in ts} == {1, -1}:
            (t1, _), (t2, _) = ts
            if t1[0] == t2[0] == "attr" and {t1[1], t2[1]} == {"self", other} and t1[2] == t2[2]:
                return t1[2]
    if c[0] == "atom" and isinstance(c[1], tuple) and c[1][0] == "cmp" and c[1][1] == "eq":
        info = c[2] or {}
        a, b = info.get("a"), info.get("b")
        names = []
        for v in (a, b):
            if isinstance(v, Arr) and "." in str(v.name):
                names.append(tuple(str(v.name).split(".", 1)))
        if len(names) == 2 and {names[0][0], names[1][0]} == {"self", other} and names[0][1] == names[1][1]:
            return names[0][1]
    return None


def _compare_order(test, other):
    order = []
    for n in ast.walk(test):
        pass
    def visit(n):
        if isinstance(n, ast.BoolOp):
            for v in n.values:
                visit(v)
        elif isinstance(n, ast.UnaryOp):
            visit(n.operand)
        elif isinstance(n, ast.Compare):
            a = self_attr(n.left) or self_attr(n.left, other)
            if a:
                order.append(a)
    visit(test)
    return order


# ---------------------------------------------------------------------------
# C10 / C20  save / load
# ---------------------------------------------------------------------------

def find_savez(F, meth):
    for n in walk_no_nested(meth.node):
        if isinstance(n, ast.Call) and dotted(n.func) in ("np.savez", "numpy.savez", "np.savez_compressed", "numpy.savez_compressed"):
            return n
    return None


def persistent_arrays(F, cls):
    """Arrays allocated in __init__ under both polarities of one `if` (shared / in-memory)."""
    by = {}
    for d in F.attr_defs(cls):
        al = array_alloc(d.value)
        if al and d.branch:
            by.setdefault(d.attr, set()).add(d.branch[-1][1])
    return [a for a, pols in by.items() if pols == {True, False}]


class LoaderInfo:
    def __init__(self):
        self.with_node = None
        self.npz = None
        self.reads = []        # (member name, node)
        self.copies = []       # (attr, member, node)
        self.ctor_call = None
        self.obj = None
        self.args_name = None
        self.returns = []


def parse_loader(F, meth):
    li = LoaderInfo()
    for n in walk_no_nested(meth.node):
        if isinstance(n, ast.With):
            for it in n.items:
                if isinstance(it.context_expr, ast.Call) and dotted(it.context_expr.func) in ("np.load", "numpy.load") \
                        and isinstance(it.optional_vars, ast.Name):
                    li.with_node = n
                    li.npz = it.optional_vars.id
    if li.npz is None:
        return li
    for n in walk_no_nested(meth.node):
        if isinstance(n, ast.Subscript) and isinstance(n.value, ast.Name) and n.value.id == li.npz \
                and isinstance(n.slice, ast.Constant) and isinstance(n.slice.value, str):
            li.reads.append((n.slice.value, n))
        if isinstance(n, ast.Assign) and isinstance(n.value, ast.Subscript) and isinstance(n.value.value, ast.Name) \
                and n.value.value.id == li.npz and isinstance(n.value.slice, ast.Constant) and n.value.slice.value == "args" \
                and isinstance(n.targets[0], ast.Name):
            li.args_name = n.targets[0].id
        if isinstance(n, ast.Call) and dotted(n.func) in ("np.copyto", "numpy.copyto") and len(n.args) >= 2:
            dst, srcn = n.args[0], n.args[1]
            if isinstance(srcn, ast.Name):
                # `tmp = npz["member"]` read into a local first (the only store to `tmp`)
                defs_ = [a_ for a_ in walk_no_nested(meth.node) if isinstance(a_, ast.Assign) and any(isinstance(t_, ast.Name) and t_.id == srcn.id for t_ in a_.targets)]
                if len(defs_) == 1 and len(defs_[0].targets) == 1 and isinstance(defs_[0].value, ast.Subscript):
                    srcn = defs_[0].value
            if isinstance(dst, ast.Attribute) and isinstance(dst.value, ast.Name) and isinstance(srcn, ast.Subscript) \
                    and isinstance(srcn.value, ast.Name) and srcn.value.id == li.npz and isinstance(srcn.slice, ast.Constant):
                li.copies.append((dst.attr, srcn.slice.value, n, dst.value.id))
        if isinstance(n, ast.Assign) and isinstance(n.value, ast.Call) and isinstance(n.value.func, ast.Name) \
                and n.value.func.id == meth.cls.name and isinstance(n.targets[0], ast.Name):
            li.ctor_call = n.value
            li.obj = n.targets[0].id
        if isinstance(n, ast.Return):
            li.returns.append(n)
    return li


def _unread_restores(load, li):
    """The loader copies into a destination that is not `<obj>.<attr>` (a dict of the object's attributes, getattr, a loop variable),
    or hands the open archive to something other than numpy / the constructor: tables may be restored where parse_loader does not look."""
    parsed = {id(c[2]) for c in li.copies}
    for n in walk_no_nested(load.node):
        if not isinstance(n, ast.Call):
            continue
        d = dotted(n.func) or ""
        if d in ("np.copyto", "numpy.copyto") and id(n) not in parsed:
            return True
        if d.startswith(("np.", "numpy.")) or n is li.ctor_call:
            continue
        if any(isinstance(a_, ast.Name) and a_.id == li.npz for a_ in list(n.args) + [k.value for k in n.keywords]):
            return True
    return False


def rule_persist(ctx, classes=SKETCH_CLASSES):
    F = facts_of(ctx)
    for cls in F.classes(classes):
        save = cls.resolve("save")
        load = cls.methods.get("load") or cls.resolve("load")
        if save is None or load is None:
            raise AnalysisError("%s has no save/load" % cls.key)
        sz = find_savez(F, save)
        if sz is None:
            ctx.ob("persist-table", save, save.node, "np.savez(...)", "save writes an npz archive", None, "no np.savez call")
            continue
        written = {kw.arg: kw.value for kw in sz.keywords if kw.arg}
        for k_, v_ in list(written.items()):
            if isinstance(v_, ast.Name):       # `args = np.array([...]); np.savez(f, args=args)`
                written[k_] = resolve_temps(save.node, v_, allow_subscript=True, pure_only=False, in_loops=False, loose=True)
        li = parse_loader(F, load)
        if load.cls is not cls:
            ctx.ob("persist-table", (cls.module.relpath, cls.name), cls.node, "%s.load inherited from %s" % (cls.name, load.cls.name),
                   "each class has its own loader constructing its own class", False,
                   "an inherited loader would build a %s" % load.cls.name)
            continue
        if li.npz is None or li.ctor_call is None:
            ctx.ob("persist-table", load, load.node, "with np.load(...) as npz: obj = %s(...)" % cls.name,
                   "loader shape readable", None, "no `with np.load(...) as f` / constructor call found")
            continue
        pers = persistent_arrays(F, cls)
        if not pers:
            ctx.ob("persist-table", F.ctor(cls), F.ctor(cls).node, "persistent arrays of %s" % cls.name, "constructor allocates the tables", None)
        for a in pers:
            names = [k for k, v in written.items() if self_attr(v) == a]
            okw = len(names) == 1
            ctx.ob("persist-table", save, sz, "np.savez(%s=self.%s)" % (names[0] if names else "?", a),
                   "table `%s` is written by save()" % a, okw, "" if okw else "self.%s is not a member of the archive" % a)
            if not okw:
                continue
            cp = [c for c in li.copies if c[0] == a and c[3] == li.obj]
            okr = len(cp) == 1 and cp[0][1] == names[0]
            if not cp and _unread_restores(load, li):
                okr = None          # the restoring is done somewhere this rule does not read: not found != not done
            ctx.ob("persist-table", load, cp[0][2] if cp else li.ctor_call, "np.copyto(%s.%s, %s[%r])" % (li.obj, a, li.npz, names[0]),
                   "table `%s` is restored by load() from the member save() wrote it to" % a, okr,
                   "" if okr else ("the loader restores tables through a helper / a computed destination the analysis does not read" if okr is None else
                                   "load() never restores %s.%s" % (li.obj, a) if not cp else "restored from member %r but saved as %r" % (cp[0][1], names[0])))
        # names read must have been written
        for name, node in li.reads:
            okk = name in written
            ctx.ob("persist-table", load, node, "%s[%r]" % (li.npz, name), "every member read by load() is written by save()", okk,
                   "" if okk else "member %r is not written by %s" % (name, save.qualname))
        # copies happen before the archive is closed (inside the with) and the return is of the constructed object
        for a, name, node, obj in li.copies:
            inside = is_inside(load.node, node, li.with_node)
            ctx.ob("persist-table", load, node, "copy of %r inside `with`" % name, "members are read while the archive is open", inside)
        # every table is restored on every path that hands the object back: the copies are unconditional statements and no return
        # precedes one of them
        for a, name, node, obj in li.copies:
            def arms_of(x):
                # [(conditional statement, arm index)] enclosing x inside the loader
                out_ = []
                for c_ in walk_no_nested(load.node):
                    if isinstance(c_, (ast.If, ast.For, ast.While, ast.Try)) and c_ is not x:
                        blocks = [c_.body, c_.orelse] + ([c_.finalbody] + [h_.body for h_ in c_.handlers] if isinstance(c_, ast.Try) else [])
                        for ai, blk in enumerate(blocks):
                            if any(y is x for st_ in blk for y in ast.walk(st_)):
                                out_.append((id(c_), ai, c_))
                return out_
            mine = arms_of(node)
            early = [r for r in li.returns if not comes_before(load.node, node, r)]
            # a copy under a condition is fine for a return under the same condition (`if dtype matches: build; copy; return obj`)
            def never_falls(blk):
                if not blk:
                    return False
                last = blk[-1]
                if isinstance(last, ast.Raise):
                    return True
                if isinstance(last, ast.If):
                    return never_falls(last.body) and never_falls(last.orelse)
                return False
            # ... and for a return after the `if` when the other arm cannot fall through (`if ok: build; copy  else: raise`)
            cond = [c_ for (i_, ai, c_) in mine if isinstance(c_, (ast.For, ast.While)) or
                    any((i_, ai) not in {(j_, aj) for (j_, aj, _c) in arms_of(r)} and
                        not (isinstance(c_, ast.If) and ai in (0, 1) and never_falls(c_.orelse if ai == 0 else c_.body) and not is_inside(load.node, r, c_))
                        for r in li.returns if isinstance(r.value, ast.Name))]
            okk = not early and (not cond or None)
            ctx.ob("persist-table", load, early[0] if early else node, "copy of %r on every returning path" % name,
                   "no path returns the object before table `%s` is restored" % a, okk,
                   "" if okk else ("`%s` hands the object back before %s is restored" % (unparse(early[0], 40), a) if early else
                                   "the copy is conditional (inside `%s`): not read" % type(cond[0]).__name__.lower()))
        for r in li.returns:
            okk = isinstance(r.value, ast.Name) and r.value.id == li.obj
            if not okk and isinstance(r.value, ast.Name):
                # `out = None; with np.load(f) as z: ...; out = obj` + `return out`: np.load's context manager does not swallow
                # exceptions, so the statement after the block runs only when the block's last assignment to `out` has
                vals = [n.value for n in walk_no_nested(load.node) if isinstance(n, ast.Assign) and len(n.targets) == 1
                        and isinstance(n.targets[0], ast.Name) and n.targets[0].id == r.value.id]
                real = [v for v in vals if not (isinstance(v, ast.Constant) and v.value is None)]
                okk = len(real) == 1 and isinstance(real[0], ast.Name) and real[0].id == li.obj and not is_inside(load.node, r, li.with_node) \
                    and all(is_inside(load.node, n, li.with_node) for n in walk_no_nested(load.node) if isinstance(n, ast.Assign) and n.value is real[0])
            ctx.ob("persist-table", load, r, "return %s" % unparse(r.value), "load returns the object it restored", okk)
        # ---- ctor-args
        ctor = F.ctor(cls)
        cparams = [p for p in ctor.params if p not in ("self", "shared_memory")]
        av = written.get("args")
        elts = None
        dt = None
        if isinstance(av, ast.Call) and dotted(av.func) in ("np.array", "numpy.array") and av.args and isinstance(av.args[0], (ast.List, ast.Tuple)):
            elts = av.args[0].elts
            dtn = av.args[1] if len(av.args) > 1 else next((k.value for k in av.keywords if k.arg == "dtype"), None)
            dt = NP_DTYPES.get((dotted(dtn) or "").split(".")[-1]) if dtn is not None else None
        if elts is None:
            ctx.ob("ctor-args", save, sz, "args=...", "constructor parameters are saved as np.array([...])", None, "args member not understood")
            continue
        saved = [self_attr(e) for e in elts]
        okk = saved == cparams
        ctx.ob("ctor-args", save, av, "args=[%s]" % ", ".join("self.%s" % s for s in saved),
               "args lists every constructor parameter (except shared_memory) in constructor order", okk,
               "" if okk else "constructor takes %s" % cparams)
        # how the loader feeds them back
        cc = li.ctor_call
        fed = None
        shm_positional = None
        if cc.args and isinstance(cc.args[0], ast.Starred) and _is_args_expr(cc.args[0].value, li):
            fed = list(range(len(saved)))
            okf = len(cc.args) == 1
        else:
            fed = []
            okf = True
            envidx = {}
            for n in walk_no_nested(load.node):
                if isinstance(n, ast.Assign) and isinstance(n.targets[0], ast.Name):
                    i = _args_index(n.value, li)
                    if i is not None:
                        envidx[n.targets[0].id] = i
            fullp = [p_ for p_ in ctor.params if p_ != "self"]
            for j_, a in enumerate(cc.args):
                if j_ < len(fullp) and fullp[j_] == "shared_memory" and not any(isinstance(x, ast.Starred) for x in cc.args):
                    shm_positional = a          # shared_memory given by position: not one of the saved parameters
                    continue
                i = _args_index(a, li)
                if i is None and isinstance(a, ast.Name):
                    i = envidx.get(a.id)
                fed.append(i)
            # parameters given by keyword: `Cls(width=saved[0], depth=saved[1], ...)` feeds position cparams.index(name)
            bykw = {}
            for k_ in cc.keywords:
                if k_.arg in cparams:
                    i = _args_index(k_.value, li)
                    if i is None and isinstance(k_.value, ast.Name):
                        i = envidx.get(k_.value.id)
                    bykw[k_.arg] = i
            fed = fed + [bykw.get(p_) for p_ in cparams[len(fed):]] if bykw else fed
            okf = fed == list(range(len(cparams)))
        ctx.ob("ctor-args", load, cc, unparse(cc, 90), "the loader feeds the saved parameters back in constructor order", bool(okf),
               "" if okf else "positions fed: %s" % fed)
        # fwd-shm
        kw = {k.arg: k.value for k in cc.keywords}
        if shm_positional is not None and "shared_memory" not in kw:
            kw["shared_memory"] = shm_positional
        okk = isinstance(kw.get("shared_memory"), ast.Name) and kw["shared_memory"].id == "shared_memory" and "shared_memory" in load.params
        ctx.ob("fwd-shm", load, cc, "%s(..., shared_memory=shared_memory)" % cls.name, "the loader forwards its shared_memory argument", okk)
        # each saved parameter attribute is the constructor parameter
        defs = {}
        for d in F.attr_defs(cls):
            defs.setdefault(d.attr, []).append(d)
        for p in cparams:
            ds = defs.get(p, [])
            okk = bool(ds) and all(_from_param(d.value, p) for d in ds)
            if not okk and ds and all(isinstance(d.value, ast.Call) and len(d.value.args) == 1 and isinstance(d.value.args[0], ast.Name)
                                      and d.value.args[0].id == p and not d.value.keywords and scalar_ctor(d.value) is None for d in ds):
                # <something>(p) where <something> is not a NumPy scalar type the analysis can name (a type passed in as a value):
                # the attribute is built from the parameter alone, with what conversion is not known
                okk = None
            ctx.ob("ctor-args", ctor, ds[0].stmt if ds else ctor.node, "self.%s <- %s" % (p, p),
                   "the saved attribute holds the constructor parameter of the same name", okk,
                   "" if okk else ("self.%s is built from %s by a callable the analysis cannot name" % (p, p) if okk is None else
                                   "self.%s is not derived from parameter %s alone" % (p, p)))
        # ---- lossless-args
        atys = F.attr_types(cls)
        if dt is None:
            # NumPy promotion of unsigned scalars: the widest unsigned type
            kinds = [atys.get(s) for s in saved]
            if all(t is not None and t.kind == "uint" for t in kinds):
                dt = Ty("uint", max(t.bits for t in kinds))
        UNBOUNDED = {"seed", "max_count"}
        if dt is None:
            # neither an explicit dtype nor attribute types the analysis can name: not decided (never a violation by default)
            ctx.ob("lossless-args", save, av, "dtype of the saved args array", "the element type of the saved argument array is known", None,
                   "no explicit dtype and the types of %s are not all known" % saved)
            saved = []
        for s in saved:
            if s in UNBOUNDED:
                okk = dt is not None and dt.kind == "uint" and dt.bits == 64
                ctx.ob("lossless-args", save, av, "args dtype for self.%s" % s,
                       "an unbounded 64-bit parameter is stored exactly (uint64)", okk,
                       "" if okk else "args array dtype is %r: `%s` values >= 2**53 (or 2**bits) are altered" % (dt, s))
            else:
                okk = dt is not None and (dt.kind == "uint" and dt.bits >= 32 or dt.kind == "float" and dt.bits == 64)
                ctx.ob("lossless-args", save, av, "args dtype for self.%s" % s,
                       "allocation-bounded parameter (or a float64 phi) is stored exactly", okk,
                       "" if okk else "args array dtype is %r" % dt)


def _is_args_expr(node, li):
    """The saved constructor-argument array: the local bound to <npz>["args"], or that subscript itself."""
    if isinstance(node, ast.Name) and li.args_name is not None and node.id == li.args_name:
        return True
    return isinstance(node, ast.Subscript) and isinstance(node.value, ast.Name) and node.value.id == li.npz \
        and isinstance(node.slice, ast.Constant) and node.slice.value == "args"


def _args_index(node, li):
    """i if node is  args[i]  possibly wrapped in a scalar constructor."""
    if isinstance(node, ast.Call) and len(node.args) == 1 and not node.keywords:
        return _args_index(node.args[0], li)
    if isinstance(node, ast.Subscript) and _is_args_expr(node.value, li):
        return const_int(node.slice)
    return None


def _from_param(value, p):
    names = {n.id for n in ast.walk(value) if isinstance(n, ast.Name)}
    attrs = {self_attr(n) for n in ast.walk(value) if isinstance(n, ast.Attribute)}
    attrs.discard(None)
    free = {n for n in names if n not in ("np", "numpy", "self", "float", "int")}
    return free <= {p} and (p in free or bool(attrs))     # phi=None default derives from self.width: accepted


def rule_dispatch(ctx):
    F = facts_of(ctx)
    mod = ctx.model.module("countmin")
    ld = ctx.model.func("countmin", "load")
    # module-level table: dtype -> class, read from the paths of load(): a call `<Class>.load(...)` reached on a path that decided
    # `saved dtype == np.uintN` (and no other dtype) positively
    table = {}
    wld = F.walk(ld)
    for e in wld.events:
        if e.kind == "call" and isinstance(e.node, ast.Call) and isinstance(e.node.func, ast.Attribute) and e.node.func.attr == "load" \
                and isinstance(e.node.func.value, ast.Name):
            dec = _dtype_decisions(e)
            pos = [b_ for b_, pol in dec.items() if pol]
            cname = e.node.func.value.id
            v = (getattr(e, "envsnap", None) or {}).get(cname)
            if isinstance(v, Opaque) and isinstance(v.desc, tuple) and len(v.desc) == 2 and v.desc[0] == "global":
                cname = v.desc[1]
            if len(pos) == 1:
                table[pos[0]] = (cname, e.node, e.node)
    for cls in F.classes(COUNTMIN):
        cc = F.class_ceiling(cls)
        bits = cc[0].bits if cc else None
        if bits is None:
            ctx.ob("dispatch", F.ctor(cls), F.ctor(cls).node, "%s: counter type" % cls.name, "the counter type of the class is known", None,
                   "the constructor does not name the table's dtype in a form the analysis reads")
            continue
        ent = table.get(bits)
        okk = ent is not None and ent[0] == cls.name
        ctx.ob("dispatch", ld, ent[2] if ent else ld.node, "uint%s -> %s.load" % (bits, ent[0] if ent else "?"),
               "module load() dispatches the dtype written by %s to %s.load" % (cls.name, cls.name), okk,
               "" if okk else "dtype uint%s is dispatched to %s" % (bits, ent[0] if ent else "nothing"))
        if ent:
            call = ent[1]
            okk = len(call.args) >= 2 and isinstance(call.args[1], ast.Name) and call.args[1].id == "shared_memory" or \
                any(k.arg == "shared_memory" and isinstance(k.value, ast.Name) and k.value.id == "shared_memory" for k in call.keywords)
            ctx.ob("fwd-shm", ld, call, unparse(call, 80), "module load() forwards shared_memory", okk)
        # class loader accepts exactly its own dtype: every normal return decided `saved dtype == own dtype`, every path that
        # decided otherwise raises TypeError
        load = cls.methods.get("load")
        if load is None:
            continue
        wl_ = F.walk(load)
        rets = [e for e in wl_.events if e.kind == "ret" and not e.implicit]
        raises = [e for e in wl_.events if e.kind == "raise"]
        res = []
        for r in rets:
            dec = _dtype_decisions(r)
            okk = dec.get(bits) is True and not any(pol for b_, pol in dec.items() if b_ != bits)
            res.append((okk, "returns only when the saved counters are uint%s" % bits if okk else
                        "a path returns a sketch without having checked that the saved counters are uint%s" % bits, fact_strs(r)))
        rej = [e for e in raises if _dtype_decisions(e).get(bits) is False]
        for e in rej:
            okk = e.exc_name == "TypeError"
            res.append((okk, "another counter type is refused with TypeError" if okk else "another counter type raises %s" % e.exc_name, fact_strs(e)))
        if not rej:
            res.append((False, "no `if dtype != np.uint%s: raise TypeError` check" % bits, []))
        agg(ctx, "dispatch", load, (rej[0].node if rej else load.node), "%s.load accepts uint%s" % (cls.name, bits),
            "the class loader rejects files of another counter type with TypeError", res)
        # the dtype member is written from a table element
        save = cls.resolve("save")
        sz = find_savez(F, save)
        kw = {k.arg: k.value for k in sz.keywords} if sz else {}
        dv = kw.get("dtype")
        okk = isinstance(dv, ast.Subscript) and self_attr(dv.value) == "cms"
        ctx.ob("dispatch", save, dv or save.node, "dtype=%s" % (unparse(dv) if dv is not None else "?"),
               "the dtype member is an element of the counter table (so it carries the table's dtype)", okk)


def _dtype_decisions(ev):
    """{bits: polarity} for the decisions `<something> == np.uintN` on the path of ev."""
    out = {}
    for (_, _, cc) in ev.path:
        for c in conjuncts(cc):
            pol = True
            while c[0] == "not":
                c, pol = c[1], not pol
            if c[0] != "atom" or not (isinstance(c[1], tuple) and c[1] and c[1][0] == "cmp" and c[1][1] == "eq"):
                continue
            info = c[2] or {}
            for v in (info.get("a"), info.get("b")):
                node = getattr(v, "node", None)
                d = dotted(node) if node is not None else None
                dt = NP_DTYPES.get((d or "").split(".")[-1]) if d else None
                if dt is not None and dt.kind == "uint":
                    out[dt.bits] = pol
    return out


def rule_post_load(ctx):
    F = facts_of(ctx)
    cls = ctx.model.cls("heavyhitters", "HeavyHitters")
    load = cls.methods.get("load")
    li = parse_loader(F, load)
    regen = [n for n in walk_no_nested(load.node) if isinstance(n, ast.Call) and (dotted(n.func) or "").endswith(".generate_candidate_set")]
    okk = bool(regen) and all(comes_before(load.node, c[2], r) for r in regen for c in li.copies) and (dotted(regen[0].func) or "").split(".")[0] == li.obj
    ctx.ob("post-load", load, regen[0] if regen else load.node, "%s.generate_candidate_set()" % (li.obj or "hh"),
           "the candidate cache is rebuilt after the tables are restored", bool(okk),
           "" if okk else "the loaded object keeps an empty candidate set recorded at n_added 0")


READERS_OK = {"np.load", "numpy.load"}
READERS_BAD = {"np.fromfile", "numpy.fromfile", "np.memmap", "numpy.memmap", "np.loadtxt", "numpy.loadtxt", "np.genfromtxt",
               "open", "pickle.load", "np.frombuffer?"}


def load_functions(F):
    out = []
    for cls in F.classes(SKETCH_CLASSES):
        m = cls.methods.get("load")
        if m is not None:
            out.append(m)
    out.append(F.model.func("countmin", "load"))
    return out


SAME_FILE_WRAPPERS = {"Path", "pathlib.Path", "PurePath", "str", "os.fspath", "fspath", "os.path.abspath", "os.path.realpath", "os.path.expanduser",
                      "os.path.normpath", "os.fsdecode"}


def rule_reader_api(ctx):
    """Every loader opens exactly the file it was given, through `with np.load(<that file>)` (zip container, no pickle, no mmap), or
    delegates to a class loader with that same file; no prefix-tolerant reader touches it."""
    F = facts_of(ctx)
    for f in load_functions(F):
        fname = f.params[0] if f.params else "filename"
        w = F.walk(f)
        calls = [e for e in w.events if e.kind == "call" and isinstance(e.node, ast.Call)]
        by_result = {id(e.result): e for e in calls if getattr(e, "result", None) is not None}

        def same_file(v, depth=0):
            """v denotes the caller's file: the parameter itself, possibly through path-normalising constructors."""
            if isinstance(v, Num) and v.lin == Lin.term(("param", fname)):
                return True
            e = by_result.get(id(v))
            if e is not None and depth < 4 and (e.name or "") in SAME_FILE_WRAPPERS and len(e.args) == 1 and not e.kwargs:
                return same_file(e.args[0], depth + 1)
            return False

        def derived(v, depth=0):
            """v is computed from the file name in some way."""
            if isinstance(v, Num):
                return ("param", fname) in v.lin.terms()
            e = by_result.get(id(v))
            if e is not None and depth < 6:
                if any(derived(a, depth + 1) for a in list(e.args) + list((e.kwargs or {}).values())):
                    return True
                # a method of a value derived from the file name (Path(filename).with_suffix(...))
                fn = e.node.func
                if isinstance(fn, ast.Attribute) and isinstance(fn.value, ast.Name):
                    rv = (getattr(e, "envsnap", None) or {}).get(fn.value.id)
                    if rv is None:
                        rv = next((x.value for x in reversed(on_path(w.events, e)) if x.kind == "assign" and getattr(x, "name", None) == fn.value.id), None)
                    return rv is not None and derived(rv, depth + 1)
            return False

        readers = [e for e in calls if (e.name or "") in READERS_OK]
        deleg = [e for e in calls if (e.name or "").endswith(".load") and isinstance(e.node.func, ast.Attribute) and (e.name or "") not in READERS_OK]
        others = [e for e in calls if e not in readers and e not in deleg and any(derived(a) or same_file(a) for a in list(e.args) + list((e.kwargs or {}).values()))]
        helper_reads = [e for e in others if isinstance(e.node.func, ast.Name) and ctx.model.lookup_func(f.module, e.node.func.id) is not None]
        if not readers and not deleg and not helper_reads:
            ctx.ob("reader-api", f, f.node, "%s(%s)" % (f.qualname, fname), "the loader reads the file", None, "no np.load / class loader call found")
        for g in group_by_node(readers):
            res = []
            n = g[0].node
            for e in g:
                bad = [k for k in n.keywords if (k.arg == "allow_pickle" and not (isinstance(k.value, ast.Constant) and k.value.value is False))
                       or k.arg == "mmap_mode" and not (isinstance(k.value, ast.Constant) and k.value.value is None)]
                in_with = any(isinstance(wn, ast.With) and any(it.context_expr is n for it in wn.items) for wn in walk_no_nested(f.node))
                a0 = e.args[0] if e.args else (e.kwargs or {}).get("file")
                same = same_file(a0)
                okk = not bad and in_with and same
                res.append((okk, "with np.load(<the caller's file>)" if okk else
                            ("np.load with %s" % unparse(bad[0].value) if bad else "np.load result is not used as a context manager" if not in_with else
                             "the file opened is `%s`, not the file the caller named: a complete sibling file can be loaded in place of a truncated one" % unparse(n.args[0] if n.args else n, 40)),
                            fact_strs(e)))
            agg(ctx, "reader-api", f, n, unparse(n, 60), "the caller's file is read through `with np.load(filename)` (zip container, no pickle, no mmap)", res)
        for g in group_by_node(deleg):
            n = g[0].node
            cname = called_name(g[0]) if isinstance(n.func, ast.Name) else None
            recv = n.func.value.id if isinstance(n.func.value, ast.Name) else None
            v = (getattr(g[0], "envsnap", None) or {}).get(recv) if recv else None
            if isinstance(v, Opaque) and isinstance(v.desc, tuple) and len(v.desc) == 2 and v.desc[0] == "global":
                recv = v.desc[1]
            known = recv in ("CountMinLinear", "CountMinLog16", "CountMinLog8", "HeavyHitters", "HyperLogLog")
            res = []
            for e in g:
                same = bool(e.args) and same_file(e.args[0])
                res.append((bool(known and same), "delegation to a class loader with the caller's file (checked there)" if known and same else
                            ("unknown loader %s" % (e.name,) if not known else "the class loader is handed another file than the one the caller named"), fact_strs(e)))
            agg(ctx, "reader-api", f, n, unparse(n, 60), "delegation to a class loader (checked there) with the same file", res)
        for g in group_by_node(others):
            e = g[0]
            d = e.name or ""
            if d in SAME_FILE_WRAPPERS:
                continue
            if d in READERS_BAD or d.split(".")[-1] in ("fromfile", "memmap", "loadtxt", "open", "read_bytes", "read", "read_text"):
                ctx.ob("reader-api", f, e.node, unparse(e.node, 60), "no prefix-tolerant reader on a load path", False, "%s accepts a truncated file" % d)
            elif d.split(".")[-1] in ("exists", "is_file", "isfile", "stat", "getsize"):
                ctx.ob("reader-api", f, e.node, unparse(e.node, 60), "only metadata of the file is inspected", True)
            elif isinstance(e.node.func, ast.Name) and ctx.model.lookup_class(f.module, e.node.func.id):
                continue       # constructor fed from the archive's members
            elif isinstance(e.node.func, ast.Name) and ctx.model.lookup_func(f.module, e.node.func.id) is not None:
                # a helper of the package that is handed the file: memoised, it answers a later load of the same path from memory
                # and never opens the (meanwhile truncated) file
                h = ctx.model.lookup_func(f.module, e.node.func.id)
                decos = [(dotted(dd.func) if isinstance(dd, ast.Call) else dotted(dd)) or "" for dd in h.node.decorator_list]
                cached = [x for x in decos if x.split(".")[-1] in ("lru_cache", "cache", "cached", "memoize")]
                reads = any(isinstance(x, ast.Call) and (dotted(x.func) or "") in READERS_OK for x in ast.walk(h.node))
                if cached:
                    ctx.ob("reader-api", f, e.node, unparse(e.node, 60), "every load opens the file it is given", False,
                           "%s is memoised (@%s) on the file name: after one good load of a path, a truncated file at that path is "
                           "answered from memory instead of being rejected" % (h.name, cached[0]))
                elif reads:
                    ok_with = any(isinstance(wn, ast.With) and any(isinstance(it.context_expr, ast.Call) and (dotted(it.context_expr.func) or "") in READERS_OK
                                                                   and it.context_expr.args and isinstance(it.context_expr.args[0], ast.Name)
                                                                   and it.context_expr.args[0].id in h.params for it in wn.items)
                                  for wn in walk_no_nested(h.node))
                    ctx.ob("reader-api", f, e.node, unparse(e.node, 60), "the helper reads the file it is given through `with np.load(<its parameter>)`",
                           True if ok_with else None, "" if ok_with else "the helper's way of reading the file is not recognised")
                continue
            else:
                # something computed from the file name that is not handed to a reader is harmless; if it reaches a reader, the
                # reader's own obligation reports it
                continue


def rule_no_swallow(ctx):
    F = facts_of(ctx)
    for f in load_functions(F):
        tries = [n for n in walk_no_nested(f.node) if isinstance(n, ast.Try)]
        bad = []
        for t in tries:
            for h in t.handlers:
                reraises = any(isinstance(s, ast.Raise) for s in ast.walk(h))
                if not reraises:
                    bad.append(h)
        ctx.ob("no-swallow", f, bad[0] if bad else f.node, "exception handlers in %s" % f.qualname,
               "no handler on a load path swallows a read failure", not bad,
               "" if not bad else "an except clause continues after a failed read: a truncated file can yield a sketch")
        # all returns come after every member read
        if f.cls is not None:
            li = parse_loader(F, f)
            if li.with_node is not None:
                early = [r for r in li.returns if any(comes_before(f.node, r, n_) for _, n_ in li.reads)]
                ctx.ob("no-swallow", f, early[0] if early else f.node, "returns of %s" % f.qualname,
                       "the loader returns only after all members were read", not early)


# ---------------------------------------------------------------------------
# C16 layout / ownership
# ---------------------------------------------------------------------------

class Poly:
    """Sum of products of symbols with integer coefficients: {('depth','width'): 4, (): 16}."""

    def __init__(self, d=None):
        self.d = {k: v for k, v in (d or {}).items() if v}

    @staticmethod
    def const(c):
        return Poly({(): c})

    @staticmethod
    def sym(s):
        return Poly({(s,): 1})

    def __add__(self, o):
        d = dict(self.d)
        for k, v in o.d.items():
            d[k] = d.get(k, 0) + v
        return Poly(d)

    def __mul__(self, o):
        d = {}
        for k1, v1 in self.d.items():
            for k2, v2 in o.d.items():
                k = tuple(sorted(k1 + k2))
                d[k] = d.get(k, 0) + v1 * v2
        return Poly(d)

    def __sub__(self, o):
        return self + Poly({k: -v for k, v in o.d.items()})

    def __eq__(self, o):
        return isinstance(o, Poly) and self.d == o.d

    def __hash__(self):
        return hash(tuple(sorted(self.d.items())))

    def __repr__(self):
        if not self.d:
            return "0"
        return " + ".join(("%d*%s" % (v, "*".join(k)) if k else str(v)) if (v != 1 or not k) else "*".join(k)
                          for k, v in sorted(self.d.items()))


ITEMSIZE = {8: 1, 16: 2, 32: 4, 64: 8}


class LayoutEval:
    """Straight-line evaluation of size/offset expressions of one constructor / attacher branch."""

    def __init__(self, F, cls, inmem):
        self.F = F
        self.cls = cls
        self.inmem = inmem     # attr -> (dtype Ty, dims [Poly])
        self.env = {}
        self.alias = {}

    def ev(self, n):
        if n is None:
            return None
        if isinstance(n, ast.Constant) and isinstance(n.value, int):
            return Poly.const(n.value)
        if isinstance(n, ast.Name):
            if n.id in self.env:
                return self.env[n.id]
            return Poly.sym(n.id)
        a = self_attr(n)
        if a:
            return Poly.sym(a)           # self.width == width (rule ctor-attr)
        if isinstance(n, ast.Attribute) and n.attr == "nbytes":
            b = self_attr(n.value)
            if b and b in self.inmem:
                dt, dims = self.inmem[b]
                if dt is None or any(d is None for d in dims):
                    return None
                p = Poly.const(ITEMSIZE[dt.bits])
                for d in dims:
                    p = p * d
                return p
            return None
        if isinstance(n, ast.Call) and dotted(n.func) in ("int", "np.uint64", "np.int64") and len(n.args) == 1:
            return self.ev(n.args[0])
        if isinstance(n, ast.BinOp):
            l, r = self.ev(n.left), self.ev(n.right)
            if l is None or r is None:
                return None
            if isinstance(n.op, ast.Add):
                return l + r
            if isinstance(n.op, ast.Sub):
                return l - r
            if isinstance(n.op, ast.Mult):
                return l * r
        return None

    def run(self, stmts, shm_names):
        """Returns (segments, requested_size) ; segments: [(attr, dtype, start, end|None, dims)]"""
        segs = []
        size = None
        for s in stmts:
            if isinstance(s, ast.Assign) and len(s.targets) == 1:
                t = s.targets[0]
                if isinstance(t, ast.Name):
                    v = self.ev(s.value)
                    if v is not None:
                        self.env[t.id] = v
                    elif isinstance(s.value, ast.Call) and dotted(s.value.func) == "SharedMemory":
                        pass
                    else:
                        # aliases of a dtype (x = self.cms.dtype / np.uint32) or of a buffer (b = shm.buf)
                        self.alias[t.id] = s.value
                    continue
                a = self_attr(t)
                if a and isinstance(s.value, ast.Call) and dotted(s.value.func) == "SharedMemory":
                    for kw in s.value.keywords:
                        if kw.arg == "size":
                            size = self.ev(kw.value)
                    continue
                if a:
                    al = array_alloc(s.value)
                    if al and al["kind"] == "frombuffer":
                        buf = al["buf"]
                        start, end = Poly.const(0), None
                        owner = None
                        if isinstance(buf, ast.Name) and buf.id in self.alias:
                            buf = self.alias[buf.id]
                        if isinstance(buf, ast.Subscript) and isinstance(buf.value, ast.Name) and buf.value.id in self.alias:
                            buf = ast.Subscript(value=self.alias[buf.value.id], slice=buf.slice, ctx=ast.Load())
                        if isinstance(buf, ast.Subscript) and isinstance(buf.slice, ast.Slice):
                            owner = dotted(buf.value)
                            start = self.ev(buf.slice.lower) if buf.slice.lower is not None else Poly.const(0)
                            end = self.ev(buf.slice.upper) if buf.slice.upper is not None else None
                            if (buf.slice.lower is not None and start is None) or (buf.slice.upper is not None and end is None):
                                start = "?"
                        else:
                            owner = dotted(buf)
                        dt = al["dtype"]
                        if dt is None and isinstance(al["dtype_node"], ast.Name) and al["dtype_node"].id in self.alias:
                            from .facts import _dtype
                            al = dict(al)
                            al["dtype_node"] = self.alias[al["dtype_node"].id]
                            dt = _dtype(al["dtype_node"])
                        if dt is None and al["dtype_node"] is not None:
                            # self.cms.dtype -> the class's own table dtype
                            dn = al["dtype_node"]
                            if isinstance(dn, ast.Attribute) and dn.attr == "dtype" and self_attr(dn.value) in self.inmem:
                                dt = self.inmem[self_attr(dn.value)][0]
                        dims = [self.ev(d) for d in al["dims"]] if al["dims"] else None
                        segs.append({"attr": a, "dtype": dt, "start": start, "end": end, "dims": dims, "owner": owner, "node": s})
            elif isinstance(s, ast.AugAssign) and isinstance(s.target, ast.Name) and isinstance(s.op, ast.Add):
                v = self.ev(s.value)
                cur = self.env.get(s.target.id, Poly.sym(s.target.id))
                if v is not None:
                    self.env[s.target.id] = cur + v
        return segs, size


class LIUndecided(Exception):
    pass


class LayoutInterp:
    """Symbolic run of a constructor (with shared_memory taken to be true) or of attach_existing_shm: sizes and offsets are
    polynomials in the shape parameters, lists / tuples / dicts / slice objects / plain helper functions are interpreted, and every
    `self.<attr> = np.frombuffer(<block>.buf[a:b], dtype)[.reshape(...)]` is recorded as a segment.  Used when the straight-line
    evaluator (LayoutEval) meets offsets it cannot read (a helper that returns cumulative sums, a table of (name, size) pairs, slice
    objects kept in a dict, a running offset variable)."""

    UNK = ("unk",)

    def __init__(self, F, cls, inmem, truths=None):
        self.F, self.cls, self.inmem = F, cls, inmem
        self.truths = dict(truths or {})      # parameter name -> bool (shared_memory=True for the constructor)
        self.segs = []
        self.size = None
        self.steps = 0

    # ---- values
    @staticmethod
    def is_poly(v):
        return isinstance(v, Poly)

    def ev(self, n, env):
        self.steps += 1
        if self.steps > 20000:
            raise LIUndecided("too many steps")
        if n is None:
            return None
        if isinstance(n, ast.Constant):
            if isinstance(n.value, bool) or n.value is None or isinstance(n.value, str):
                return n.value
            if isinstance(n.value, int):
                return Poly.const(n.value)
            return self.UNK
        if isinstance(n, ast.Name):
            if n.id in env:
                return env[n.id]
            if n.id in self.truths:
                return self.truths[n.id]
            return Poly.sym(n.id) if n.id.isidentifier() and n.id not in ("np", "numpy") else self.UNK
        if isinstance(n, (ast.Tuple, ast.List)):
            vals = [self.ev(e, env) for e in n.elts]
            return tuple(vals) if isinstance(n, ast.Tuple) else list(vals)
        if isinstance(n, ast.Dict):
            out = {}
            for k, v in zip(n.keys, n.values):
                kk = self.ev(k, env)
                if not isinstance(kk, str):
                    return self.UNK
                out[kk] = self.ev(v, env)
            return out
        if isinstance(n, ast.Attribute):
            a = self_attr(n)
            if a:
                if ("@" + a) in env:
                    return env["@" + a]
                if a in self.inmem:
                    return ("table", a)         # one of the sketch's arrays (its size and dtype are the in-memory allocation's)
                return Poly.sym(a)              # self.width == width (rule ctor-attr)
            base = self.ev(n.value, env)
            if isinstance(base, tuple) and base and base[0] == "table":
                dt, dims = self.inmem[base[1]]
                if dt is None or any(d_ is None for d_ in dims):
                    raise LIUndecided("dtype / shape of self.%s not known" % base[1])
                if n.attr == "nbytes":
                    p_ = Poly.const(ITEMSIZE[dt.bits])
                    for d_ in dims:
                        p_ = p_ * d_
                    return p_
                if n.attr == "dtype":
                    return ("dtype", dt)
                if n.attr == "shape":
                    return tuple(dims)
                if n.attr == "size":
                    p_ = Poly.const(1)
                    for d_ in dims:
                        p_ = p_ * d_
                    return p_
                if n.attr == "itemsize":
                    return Poly.const(ITEMSIZE[dt.bits])
            if n.attr == "itemsize" and isinstance(base, tuple) and base and base[0] == "dtype" and base[1] is not None:
                return Poly.const(ITEMSIZE[base[1].bits])
            if n.attr == "buf" and isinstance(base, tuple) and base and base[0] == "shm":
                return ("buf", base[1] + ".buf")
            if n.attr == "nbytes":
                b = self_attr(n.value)
                if b and b in self.inmem:
                    dt, dims = self.inmem[b]
                    p = Poly.const(ITEMSIZE[dt.bits])
                    for d in dims:
                        p = p * d
                    return p
            if n.attr == "dtype":
                b = self_attr(n.value)
                if b and b in self.inmem:
                    return ("dtype", self.inmem[b][0])
            from .facts import _dtype
            dt = _dtype(n)
            if dt is not None:
                return ("dtype", dt)
            return self.UNK
        if isinstance(n, ast.BinOp):
            l, r = self.ev(n.left, env), self.ev(n.right, env)
            if isinstance(l, Poly) and isinstance(r, Poly):
                if isinstance(n.op, ast.Add):
                    return l + r
                if isinstance(n.op, ast.Sub):
                    return l - r
                if isinstance(n.op, ast.Mult):
                    return l * r
            if isinstance(n.op, ast.Add) and isinstance(l, (list, tuple)) and type(l) is type(r):
                return l + r
            # X & ~(2^k - 1): X rounded down to a multiple of 2^k
            if isinstance(n.op, ast.BitAnd) and isinstance(l, Poly) and isinstance(n.right, ast.UnaryOp) and isinstance(n.right.op, ast.Invert) \
                    and isinstance(n.right.operand, ast.Constant) and isinstance(n.right.operand.value, int):
                return Poly.sym("(rounddown %r to %d)" % (l, n.right.operand.value + 1))
            if isinstance(l, Poly) and isinstance(r, Poly) and isinstance(n.op, (ast.Mod, ast.FloorDiv)):
                # rounding / padding arithmetic: constants are folded, anything else is an opaque atom named by its operands, so that
                # the same expression on both sides compares equal and different ones do not
                lc, rc = (not any(k for k in l.d if k)), (not any(k for k in r.d if k))
                if lc and rc and r.d.get((), 0) != 0:
                    a_, b_ = l.d.get((), 0), r.d.get((), 0)
                    return Poly.const(a_ % b_ if isinstance(n.op, ast.Mod) else a_ // b_)
                return Poly.sym("(%r %s %r)" % (l, "%" if isinstance(n.op, ast.Mod) else "//", r))
            return self.UNK
        if isinstance(n, ast.UnaryOp):
            v = self.ev(n.operand, env)
            if isinstance(n.op, ast.Not) and isinstance(v, bool):
                return not v
            if isinstance(n.op, ast.USub) and isinstance(v, Poly):
                return Poly.const(0) - v
            return self.UNK
        if isinstance(n, ast.Subscript):
            base = self.ev(n.value, env)
            if isinstance(n.slice, ast.Slice):
                lo = self.ev(n.slice.lower, env) if n.slice.lower is not None else None
                hi = self.ev(n.slice.upper, env) if n.slice.upper is not None else None
                if isinstance(base, tuple) and base and base[0] == "buf":
                    if (lo is not None and not isinstance(lo, Poly)) or (hi is not None and not isinstance(hi, Poly)):
                        raise LIUndecided("slice bound `%s`" % unparse(n.slice, 40))
                    return ("bufslice", base[1], lo if lo is not None else Poly.const(0), hi)
                if isinstance(base, (list, tuple)) and n.slice.step is None:
                    def _ci(v):
                        if v is None:
                            return None
                        if isinstance(v, Poly) and not any(k for k in v.d if k):
                            return v.d.get((), 0)
                        raise LIUndecided("list slice bound")
                    return base[_ci(lo):_ci(hi)]
                return self.UNK
            i = self.ev(n.slice, env)
            if isinstance(base, tuple) and base and base[0] == "buf" and isinstance(i, tuple) and i and i[0] == "slice":
                return ("bufslice", base[1], i[1] if i[1] is not None else Poly.const(0), i[2])
            if isinstance(base, dict) and isinstance(i, str) and i in base:
                return base[i]
            if isinstance(base, (list, tuple)) and isinstance(i, Poly) and not any(k for k in i.d if k):
                k = i.d.get((), 0)
                if -len(base) <= k < len(base):
                    return base[k]
            return self.UNK
        if isinstance(n, ast.Compare) and len(n.ops) == 1:
            l, r = self.ev(n.left, env), self.ev(n.comparators[0], env)
            if isinstance(l, Poly) and isinstance(r, Poly) and not any(k for k in (l - r).d if k):
                d = (l - r).d.get((), 0)
                return {ast.Eq: d == 0, ast.NotEq: d != 0, ast.Lt: d < 0, ast.LtE: d <= 0, ast.Gt: d > 0, ast.GtE: d >= 0}.get(type(n.ops[0]), self.UNK)
            if isinstance(n.ops[0], (ast.Is, ast.IsNot)) and r is None and (l is None or isinstance(l, (Poly, bool, str, list, tuple, dict))):
                return (l is None) == isinstance(n.ops[0], ast.Is)
            return self.UNK
        if isinstance(n, ast.Call):
            return self.call(n, env)
        if isinstance(n, (ast.GeneratorExp, ast.ListComp)) and len(n.generators) == 1 and not n.generators[0].ifs:
            g = n.generators[0]
            it = self.ev(g.iter, env)
            if not isinstance(it, (list, tuple)):
                return self.UNK
            out = []
            for x in it:
                e2 = dict(env)
                self.bind(g.target, x, e2)
                out.append(self.ev(n.elt, e2))
            return out
        return self.UNK

    def bind(self, t, v, env):
        if isinstance(t, ast.Name):
            if v == ("shm", "?opened"):
                v = ("shm", t.id)            # a block opened by name and kept in this local
            env[t.id] = v
        elif isinstance(t, (ast.Tuple, ast.List)) and isinstance(v, (tuple, list)) and len(v) == len(t.elts):
            for x, y in zip(t.elts, v):
                self.bind(x, y, env)
        else:
            raise LIUndecided("binding `%s`" % unparse(t, 40))

    def call(self, c, env):
        d = dotted(c.func) or ""
        args = [self.ev(a, env) for a in c.args if not isinstance(a, ast.Starred)]
        kw = {k.arg: self.ev(k.value, env) for k in c.keywords if k.arg}
        if d in ("int", "np.uint64", "np.int64", "numpy.uint64", "np.uint32") and len(args) == 1:
            return args[0] if isinstance(args[0], Poly) else self.UNK
        if d == "sum" and len(args) == 1 and isinstance(args[0], (list, tuple)) and all(isinstance(x, Poly) for x in args[0]):
            tot = Poly.const(0)
            for x in args[0]:
                tot = tot + x
            return tot
        if d == "len" and len(args) == 1 and isinstance(args[0], (list, tuple, dict)):
            return Poly.const(len(args[0]))
        if d == "range" and args and all(isinstance(a, Poly) and not any(k for k in a.d if k) for a in args):
            return [Poly.const(i) for i in range(*[a.d.get((), 0) for a in args])]
        if d in ("np.dtype", "numpy.dtype") and len(args) == 1:
            return args[0] if isinstance(args[0], tuple) and args[0] and args[0][0] == "dtype" else self.UNK
        if d == "slice" and 1 <= len(args) <= 2:
            lo, hi = (None, args[0]) if len(args) == 1 else args
            return ("slice", lo, hi)
        if d in ("tuple", "list") and len(args) == 1 and isinstance(args[0], (list, tuple)):
            return tuple(args[0]) if d == "tuple" else list(args[0])
        if d == "dict" and not args:
            return dict(kw)
        if d.split(".")[-1] == "SharedMemory":
            if "size" in kw:
                if self.size is None:
                    self.size = kw["size"] if isinstance(kw["size"], Poly) else "?"
                return ("shm", "self.shm")
            return ("shm", "?opened")
        if d in ("np.frombuffer", "numpy.frombuffer") and args:
            b = args[0]
            dt = args[1] if len(args) > 1 else kw.get("dtype")
            dty = dt[1] if isinstance(dt, tuple) and dt and dt[0] == "dtype" else None
            if isinstance(b, tuple) and b and b[0] == "buf":
                b = ("bufslice", b[1], Poly.const(0), None)
            if isinstance(b, tuple) and b and b[0] == "bufslice":
                return ("arr", b[1], b[2], b[3], dty, None)
            raise LIUndecided("np.frombuffer of `%s`" % unparse(c.args[0], 40))
        if isinstance(c.func, ast.Attribute):
            recv = self.ev(c.func.value, env)
            m = c.func.attr
            if m == "reshape" and isinstance(recv, tuple) and recv and recv[0] == "arr":
                dims = list(args[0]) if len(args) == 1 and isinstance(args[0], (tuple, list)) else args
                return recv[:5] + (list(dims),)
            if m == "append" and isinstance(recv, list) and len(args) == 1:
                recv.append(args[0])
                return None
            if m == "items" and isinstance(recv, dict):
                return [(k, v) for k, v in recv.items()]
            if m in ("keys", "values") and isinstance(recv, dict):
                return list(recv.keys() if m == "keys" else recv.values())
        # a plain Python helper of the module
        if isinstance(c.func, ast.Name):
            callee = self.F.model.lookup_func(self.cls.module, c.func.id)
            if callee is not None and not callee.is_kernel and len(callee.params) == len(args) and not c.keywords:
                e2 = dict(zip(callee.params, args))
                r = self.block(callee.body(), e2)
                return r[1] if r is not None and r[0] == "ret" else None
        return self.UNK

    # ---- statements
    def block(self, stmts, env):
        for s in stmts:
            r = self.stmt(s, env)
            if r is not None:
                return r
        return None

    def stmt(self, s, env):
        if isinstance(s, ast.Expr):
            if not isinstance(s.value, ast.Constant):
                self.ev(s.value, env)
            return None
        if isinstance(s, (ast.Pass, ast.Assert, ast.Delete, ast.Raise, ast.Import, ast.ImportFrom)):
            return None
        if isinstance(s, ast.Assign) and len(s.targets) == 1:
            v = self.ev(s.value, env)
            t = s.targets[0]
            a = self_attr(t)
            if a:
                if isinstance(v, tuple) and v and v[0] == "arr":
                    self.segs.append({"attr": a, "dtype": v[4], "start": v[2], "end": v[3], "dims": v[5], "owner": v[1], "node": s})
                elif isinstance(v, tuple) and v and v[0] == "shm":
                    env["@" + a] = v
                elif isinstance(v, Poly) and a in ("shm",):
                    env["@" + a] = v
                return None
            if isinstance(t, ast.Subscript):
                base = self.ev(t.value, env)
                i = self.ev(t.slice, env)
                if isinstance(base, dict) and isinstance(i, str):
                    base[i] = v
                    return None
                if isinstance(base, list) and isinstance(i, Poly) and not any(k for k in i.d if k):
                    base[i.d.get((), 0)] = v
                    return None
                return None
            self.bind(t, v, env)
            return None
        if isinstance(s, ast.AnnAssign) and s.value is not None and isinstance(s.target, ast.Name):
            env[s.target.id] = self.ev(s.value, env)
            return None
        if isinstance(s, ast.AugAssign) and isinstance(s.target, ast.Name):
            cur = env.get(s.target.id, Poly.sym(s.target.id))
            v = self.ev(s.value, env)
            if isinstance(cur, Poly) and isinstance(v, Poly) and isinstance(s.op, (ast.Add, ast.Sub, ast.Mult)):
                env[s.target.id] = cur + v if isinstance(s.op, ast.Add) else cur - v if isinstance(s.op, ast.Sub) else cur * v
            else:
                env[s.target.id] = self.UNK
            return None
        if isinstance(s, ast.AugAssign):
            return None
        if isinstance(s, ast.If):
            t = self.ev(s.test, env)
            if isinstance(t, bool):
                return self.block(s.body if t else s.orelse, env)
            # a validation check (raises only) or a branch that places no segment: skipped; anything else is not understood
            def places(stmts):
                return any(isinstance(x, ast.Call) and (dotted(x.func) or "").endswith("frombuffer") for b in stmts for x in ast.walk(b))
            if not places(s.body) and not places(s.orelse):
                return None
            raise LIUndecided("branch on `%s`" % unparse(s.test, 50))
        if isinstance(s, ast.For):
            it = self.ev(s.iter, env)
            if not isinstance(it, (list, tuple)):
                if not any(isinstance(x, ast.Call) and (dotted(x.func) or "").endswith("frombuffer") for x in ast.walk(s)):
                    return None
                raise LIUndecided("loop over `%s`" % unparse(s.iter, 40))
            for x in list(it):
                self.bind(s.target, x, env)
                r = self.block(s.body, env)
                if r is not None:
                    if r[0] == "break":
                        break
                    if r[0] == "continue":
                        continue
                    return r
            return None
        if isinstance(s, ast.Return):
            return ("ret", self.ev(s.value, env) if s.value is not None else None)
        if isinstance(s, ast.Break):
            return ("break",)
        if isinstance(s, ast.Continue):
            return ("continue",)
        if isinstance(s, (ast.With, ast.Try)):
            r = self.block(s.body, env)
            return r
        if isinstance(s, ast.While):
            raise LIUndecided("while loop")
        return None

    def run(self, func):
        env = {}
        self.block(func.body(), env)
        return self.segs, self.size


def _branches(ctor, name="shared_memory"):
    """(if-node, shared-branch statements, in-memory-branch statements) of the constructor's placement decision."""
    for s in ctor.body():
        if isinstance(s, ast.If) and isinstance(s.test, ast.Name) and s.test.id == name:
            return s, s.body, s.orelse
        if isinstance(s, ast.If) and isinstance(s.test, ast.UnaryOp) and isinstance(s.test.op, ast.Not) \
                and isinstance(s.test.operand, ast.Name) and s.test.operand.id == name:
            return s, s.orelse, s.body
    return None, None, None


def inmem_allocs(F, cls):
    """attr -> (dtype, [dims as Poly]) from the in-memory branch of the constructor."""
    ctor = F.ctor(cls)
    ifn, shared, inmem = _branches(ctor)
    out = {}
    if ifn is None:
        return out, ifn, shared, inmem
    le = LayoutEval(F, cls, {})
    # names defined before the if (sizes) are available to both branches
    pre = []
    for s in ctor.body():
        if s is ifn:
            break
        pre.append(s)
    le.run(pre, ())
    for s in inmem:
        if isinstance(s, ast.Assign) and self_attr(s.targets[0]):
            v = s.value
            if isinstance(v, ast.Name):       # `cms = np.zeros(...); self.cms = cms`
                v = resolve_temps(ctor.node, v, allow_subscript=True, pure_only=False, in_loops=False, loose=True)
            al = array_alloc(v)
            if al and al["kind"] == "zeros":
                out[self_attr(s.targets[0])] = (al["dtype"], [le.ev(d) for d in al["dims"]])
    return out, ifn, shared, inmem


_MAY_COPY_FUNCS = ("np.require", "numpy.require", "np.array", "numpy.array", "np.copy", "numpy.copy", "copy.copy", "copy.deepcopy")
_MAY_COPY_METHODS = ("copy", "astype")


def _views_not_copies(ctx, F, cls, fns):
    """What is stored in a persistent attribute while the sketch sits in a shared block must BE that block's memory: the value is
    `np.frombuffer(...)` possibly reshaped / re-viewed, never the result of something that may hand back a copy (`np.require` with an
    alignment or ownership requirement, `np.array`, `.copy()`, `.astype()`): a copy is private to the object, so owner, attached views
    and worker processes stop sharing what it holds -- silently, and possibly only for some shapes."""
    for fn in fns:
        if fn is None:
            continue
        defs = {}
        for n in walk_no_nested(fn.node):
            if isinstance(n, ast.Assign) and len(n.targets) == 1 and isinstance(n.targets[0], ast.Name):
                defs.setdefault(n.targets[0].id, []).append(n.value)

        def from_buffer(e, depth=0):
            if depth > 4:
                return False
            for x in ast.walk(e):
                if isinstance(x, ast.Call) and (dotted(x.func) or "").endswith("frombuffer"):
                    return True
                if isinstance(x, ast.Name) and any(from_buffer(v, depth + 1) for v in defs.get(x.id, ())):
                    return True
            return False

        def copying(e, depth=0):
            """the may-copy call the value passes through on its way from frombuffer, or None"""
            if depth > 4:
                return None
            if isinstance(e, ast.Call):
                d = dotted(e.func) or ""
                if d in _MAY_COPY_FUNCS and e.args and from_buffer(e.args[0]):
                    if d.endswith("array") and any(k.arg == "copy" and isinstance(k.value, ast.Constant) and k.value.value is False for k in e.keywords):
                        return None
                    return e
                if isinstance(e.func, ast.Attribute) and e.func.attr in _MAY_COPY_METHODS and from_buffer(e.func.value):
                    if e.func.attr == "astype" and any(k.arg == "copy" and isinstance(k.value, ast.Constant) and k.value.value is False for k in e.keywords):
                        return None
                    return e
                if isinstance(e.func, ast.Attribute) and e.func.attr in ("reshape", "view"):
                    return copying(e.func.value, depth + 1)
            if isinstance(e, ast.Name):
                for v in defs.get(e.id, ()):
                    r = copying(v, depth + 1)
                    if r is not None:
                        return r
            return None
        for n in walk_no_nested(fn.node):
            if isinstance(n, ast.Assign) and len(n.targets) == 1 and self_attr(n.targets[0]) and from_buffer(n.value):
                bad = copying(n.value)
                ctx.ob("layout", fn, n, "self.%s = %s" % (self_attr(n.targets[0]), unparse(n.value, 50)),
                       "a table placed in a shared block is a view of the block, never a possible copy of it", bad is None,
                       "" if bad is None else "`%s` may return a copy (for instance of an unaligned array): the attribute is then private "
                       "memory, owner and attached views no longer share it" % unparse(bad, 60))


def rule_layout(ctx, classes=SKETCH_CLASSES):
    F = facts_of(ctx)
    for cls in F.classes(classes):
        ctor = F.ctor(cls)
        _views_not_copies(ctx, F, cls, [ctor, cls.resolve("attach_existing_shm")])
        inmem, ifn, shared, inm = inmem_allocs(F, cls)
        if ifn is None:
            ctx.ob("layout", ctor, ctor.node, "if shared_memory:", "constructor has a shared and an in-memory branch", None)
            continue
        pre = []
        for s in ctor.body():
            if s is ifn:
                break
            pre.append(s)
        le = LayoutEval(F, cls, inmem)
        le.run(pre, ())
        csegs, csize = le.run(shared, ())
        att = cls.resolve("attach_existing_shm")
        if att is None:
            raise AnalysisError("%s has no attach_existing_shm" % cls.key)
        la = LayoutEval(F, cls, inmem)
        asegs, _ = la.run(att.body(), ())
        # offsets the straight-line evaluator could not read (local names left as symbols, missing segments): interpret the two
        # functions symbolically instead
        shape_syms = set(ctor.params) | {d_.attr for d_ in F.attr_defs(cls)}

        def _readable(segs, size_needed, size):
            if not segs:
                return False
            for sg in segs:
                for v in (sg["start"], sg["end"]):
                    if v is None:
                        continue
                    if not isinstance(v, Poly) or any(sym not in shape_syms and not sym.startswith("(") for k in v.d for sym in k):
                        return False
            if size_needed and (not isinstance(size, Poly) or any(sym not in shape_syms and not sym.startswith("(") for k in size.d for sym in k)):
                return False
            return True
        if not (_readable(csegs, True, csize) and _readable(asegs, False, None)):
            try:
                li_c = LayoutInterp(F, cls, inmem, {"shared_memory": True})
                c2, s2 = li_c.run(ctor)
                li_a = LayoutInterp(F, cls, inmem, {})
                a2, _ = li_a.run(att)
                if _readable(c2, True, s2) and _readable(a2, False, None):
                    csegs, csize, asegs = c2, s2, a2
            except LIUndecided as u:
                ctx.ob("layout", ctor, ctor.node, "%s: shared-memory layout" % cls.name, "the offsets of the block's segments are computable", None, str(u))
                continue
        cons = "%s.__init__ vs %s" % (cls.name, att.qualname)
        # same attributes in the same order
        ca, aa = [s["attr"] for s in csegs], [s["attr"] for s in asegs]
        okl = ca == aa and bool(ca)
        whyl = "" if ca == aa else "attacher maps %s" % aa
        if not okl:
            # attributes stored under a computed name (`setattr(self, name, view)` in a loop the analysis could not unroll) are not
            # among the segments read: the comparison is not decided, it is not a mismatch
            for fn_ in (ctor, att):
                if any(isinstance(c, ast.Call) and dotted(c.func) == "setattr" and len(c.args) == 3 and not isinstance(c.args[1], ast.Constant)
                       for c in walk_no_nested(fn_.node)):
                    okl, whyl = None, "%s stores attributes under computed names (setattr in a loop): segments not read" % fn_.qualname
        ctx.ob("layout", att, att.node, "%s: segments %s" % (cons, ca), "creator and attacher map the same attributes in the same order",
               okl, whyl)
        if okl is None:
            continue
        if ca != aa:
            continue
        prev_end = Poly.const(0)
        total = Poly.const(0)
        for i, (c, a) in enumerate(zip(csegs, asegs)):
            nm = c["attr"]
            okk = c["dtype"] is not None and c["dtype"] == a["dtype"]
            ctx.ob("layout", att, a["node"], "%s.%s dtype" % (cls.name, nm), "creator and attacher view `%s` with the same dtype" % nm, okk,
                   "" if okk else "creator %r, attacher %r" % (c["dtype"], a["dtype"]))
            for side, sg, fn in (("creator", c, ctor), ("attacher", a, att)):
                st = sg["start"]
                okk = isinstance(st, Poly) and st == prev_end
                why_ = ""
                if not okk and isinstance(st, Poly) and any(sym.startswith("(") for k in st.d for sym in k) and c["start"] == a["start"]:
                    # a start computed with rounding arithmetic, identically on both sides: fine when it is the previous end plus
                    # non-negative padding (`x % c` terms); a start rounded DOWN from the previous end overlaps the previous segment
                    gap = st - prev_end
                    pads = all(len(k) == 1 and k[0].startswith("(") and " % " in k[0] and v > 0 for k, v in gap.d.items())
                    down = any(len(k) == 1 and k[0].startswith("(rounddown") and v > 0 for k, v in gap.d.items()) or \
                        any(len(k) >= 1 and any(" // " in sym for sym in k) for k in gap.d)
                    if pads:
                        okk = True
                    elif down:
                        why_ = "%s starts `%s` at %r, rounded down from the end of the previous segment (%r): the two overlap unless that end is already a multiple" % (side, nm, st, prev_end)
                    else:
                        okk = None
                        why_ = "gap %r between the previous segment and `%s` is not decided" % (gap, nm)
                ctx.ob("layout", fn, sg["node"], "%s %s.%s start" % (side, cls.name, nm), "segment starts where the previous one ends (offset %r)" % prev_end,
                       okk, "" if okk else (why_ or "%s starts `%s` at %r" % (side, nm, st)))
            last = i == len(csegs) - 1
            ce, ae = c["end"], a["end"]
            if last:
                okk = ce is None and ae is None or (ce == ae)
                ctx.ob("layout", att, a["node"], "%s.%s end" % (cls.name, nm), "last segment extends to the end of the block on both sides", bool(okk))
            else:
                okk = isinstance(ce, Poly) and ce == ae
                ctx.ob("layout", att, a["node"], "%s.%s end" % (cls.name, nm), "creator and attacher end `%s` at the same offset" % nm, bool(okk),
                       "" if okk else "creator %r, attacher %r" % (ce, ae))
                # byte length equals itemsize * prod(dims)
                if isinstance(ce, Poly) and isinstance(c["start"], Poly) and c["dims"] and c["dtype"] is not None:
                    want = Poly.const(ITEMSIZE[c["dtype"].bits])
                    for d in c["dims"]:
                        want = want * d if d is not None else want
                    okk = (ce - c["start"]) == want
                    ctx.ob("layout", ctor, c["node"], "%s.%s size" % (cls.name, nm), "segment size == itemsize(dtype) x shape", okk,
                           "" if okk else "segment has %r bytes, the view needs %r" % (ce - c["start"], want))
                    total = total + want
                prev_end = ce if isinstance(ce, Poly) else prev_end
            # shapes agree between creator, attacher, and in-memory allocation
            if c["dims"] is not None or a["dims"] is not None:
                okk = c["dims"] == a["dims"]
                ctx.ob("layout", att, a["node"], "%s.%s shape" % (cls.name, nm), "creator and attacher reshape identically", bool(okk),
                       "" if okk else "creator %r, attacher %r" % (c["dims"], a["dims"]))
            # owners: creator views self.shm.buf, attacher views existing_shm.buf
            ctx.ob("layout", ctor, c["node"], "%s.%s buffer" % (cls.name, nm), "creator views its own block", c["owner"] == "self.shm.buf")
            opened = {n.targets[0].id for n in walk_no_nested(att.node) if isinstance(n, ast.Assign) and isinstance(n.targets[0], ast.Name)
                      and isinstance(n.value, ast.Call) and dotted(n.value.func) == "SharedMemory"}
            ctx.ob("layout", att, a["node"], "%s.%s buffer (attacher)" % (cls.name, nm), "attacher views the existing block it opened by name",
                   any((a["owner"] or "") == o + ".buf" for o in opened))
        # requested size
        if not csegs:
            ctx.ob("layout", ctor, ctor.node, "%s: shared-memory layout" % cls.name, "the segments of the block are readable", None, "no segment read")
            continue
        last = csegs[-1]
        if last["attr"] == "n_added_records":
            # the two uint64 counters follow the last table (directly, or after padding both sides agree on)
            want = (last["start"] + Poly.const(16)) if isinstance(last["start"], Poly) else total + Poly.const(16)
        else:
            # single whole-buffer segment (HLL): m bytes of uint8
            dt, dims = inmem.get(last["attr"], (None, None))
            want = Poly.const(ITEMSIZE[dt.bits]) if dt else None
            for d in dims or []:
                want = want * d
        okk = csize is not None and want is not None and csize == want
        ctx.ob("layout", ctor, ctor.node, "%s: SharedMemory(size=%r)" % (cls.name, csize), "requested block size == sum of the segments (+16 for the two uint64 counters)",
               bool(okk), "" if okk else "needs %r" % want)
        # alloc-agree
        for c in csegs:
            nm = c["attr"]
            im = inmem.get(nm)
            if im is None:
                ctx.ob("alloc-agree", ctor, c["node"], "%s.%s in-memory" % (cls.name, nm), "in-memory branch allocates the attribute", False)
                continue
            okk = im[0] == c["dtype"]
            ctx.ob("alloc-agree", ctor, c["node"], "%s.%s dtype (in-memory vs shared)" % (cls.name, nm), "both branches use the same dtype", okk,
                   "" if okk else "in-memory %r, shared %r" % (im[0], c["dtype"]))
            if c["dims"] is not None:
                okk = im[1] == c["dims"]
                ctx.ob("alloc-agree", ctor, c["node"], "%s.%s shape (in-memory vs shared)" % (cls.name, nm), "both branches use the same shape", okk,
                       "" if okk else "in-memory %r, shared %r" % (im[1], c["dims"]))
            elif nm == "n_added_records":
                okk = im[1] == [Poly.const(2)] and im[0] == Ty("uint", 64)
                ctx.ob("alloc-agree", ctor, c["node"], "%s.n_added_records (2 x uint64)" % cls.name, "bookkeeping counters are two uint64 in both branches", okk)


def rule_owner(ctx, classes=SKETCH_CLASSES):
    F = facts_of(ctx)
    seen = set()
    for cls in F.classes(classes):
        d = cls.resolve("__del__")
        if d is None:
            ctx.ob("owner", (cls.module.relpath, cls.name), cls.node, "%s.__del__" % cls.name, "class releases its block", None, "no __del__")
            continue
        att = cls.resolve("attach_existing_shm")
        # attacher assigns existing_shm and never shm
        if att.key not in seen:
            seen.add(att.key)
            sets = {self_attr(t) for n in walk_no_nested(att.node) if isinstance(n, ast.Assign) for t in n.targets}
            ctx.ob("owner", att, att.node, "%s sets %s" % (att.qualname, sorted(x for x in sets if x)),
                   "an attached view records the block as existing_shm, never as the owned shm",
                   "existing_shm" in sets and "shm" not in sets,
                   "" if "existing_shm" in sets and "shm" not in sets else "attacher assigns self.shm: the view would unlink the owner's block")
            opens = [n for n in walk_no_nested(att.node) if isinstance(n, ast.Call) and dotted(n.func) == "SharedMemory"]
            okk = bool(opens) and all(not any(k.arg == "create" and not (isinstance(k.value, ast.Constant) and k.value.value is False) for k in c.keywords) for c in opens)
            ctx.ob("owner", att, opens[0] if opens else att.node, "SharedMemory(name=...)", "attacher opens the block by name without creating it", okk)
        # the release in __del__ only happens if dropping the last user reference really frees the object: nothing may park a strong
        # reference to the sketch (or to one of its bound methods) in a process-global registry
        keep = []
        mod_names = set(getattr(cls.module, "globals", {}) or ())
        for mname, meth in cls.methods.items():
            for n in walk_no_nested(meth.node):
                if not isinstance(n, ast.Call):
                    continue
                fn = dotted(n.func) or ""
                last = fn.split(".")[-1]
                held = []
                if last == "finalize" and fn in ("weakref.finalize", "finalize"):
                    held = list(n.args[1:]) + [k.value for k in n.keywords]
                elif fn in ("atexit.register", "signal.signal") or (last == "register" and fn.split(".")[0] == "atexit"):
                    held = list(n.args) + [k.value for k in n.keywords]
                elif isinstance(n.func, ast.Attribute) and n.func.attr in ("append", "add", "insert", "setdefault", "update", "extend") \
                        and isinstance(n.func.value, ast.Name) and n.func.value.id.isupper():
                    held = list(n.args)      # a module-level (constant-style) container
                def holds_self(x):
                    """the object itself, one of its bound methods, or a closure / partial over either (an attribute VALUE such as
                    self.shm or self.shm.name is a different object and keeps nothing alive)"""
                    if isinstance(x, ast.Name):
                        return x.id == "self"
                    if isinstance(x, ast.Attribute) and isinstance(x.value, ast.Name) and x.value.id == "self":
                        return cls.resolve(x.attr) is not None
                    if isinstance(x, ast.Lambda):
                        return any(isinstance(y, ast.Name) and y.id == "self" for y in ast.walk(x.body))
                    if isinstance(x, ast.Call) and (dotted(x.func) or "").split(".")[-1] == "partial":
                        return any(holds_self(y) for y in list(x.args) + [k.value for k in x.keywords])
                    if isinstance(x, (ast.Tuple, ast.List)):
                        return any(holds_self(y) for y in x.elts)
                    return False
                if any(holds_self(h) for h in held):
                    keep.append((meth, n, fn or unparse(n.func, 40)))
        k0 = (cls.module.relpath, cls.name)
        if (k0, "keepalive") not in seen:
            seen.add((k0, "keepalive"))
            ctx.ob("owner", d, keep[0][1] if keep else cls.node, "%s: no global registry holds the sketch" % cls.name,
                   "dropping the last reference to an owner runs __del__ (nothing keeps the object alive behind the user's back)",
                   not keep, "" if not keep else "%s in %s holds a strong reference to `self` (or a bound method of it): the owner is never "
                   "collected before interpreter exit, so its segment stays in the system" % (keep[0][2], keep[0][0].qualname))
        # `__del__` that merely delegates (`def __del__(self): self.close()`): the release code is judged where it lives
        for _ in range(2):
            core = [x for x in d.node.body if not (isinstance(x, ast.Expr) and isinstance(x.value, ast.Constant)) and not isinstance(x, ast.Pass)]
            if len(core) == 1 and isinstance(core[0], ast.Expr) and isinstance(core[0].value, ast.Call) and not core[0].value.args \
                    and not core[0].value.keywords and isinstance(core[0].value.func, ast.Attribute) and dotted(core[0].value.func.value) == "self":
                tgt = cls.resolve(core[0].value.func.attr)
                if tgt is None:
                    break
                d = tgt
            else:
                break
        if d.key in seen:
            continue
        seen.add(d.key)
        shm_attrs = _shm_backed(F, d.cls)
        # locals that merely hold self.shm / self.existing_shm (`owned = self.shm`, possibly `= None` in an except arm)
        alias = {}
        _assigns = [n for n in walk_no_nested(d.node) if isinstance(n, ast.Assign) and len(n.targets) == 1 and isinstance(n.targets[0], ast.Name)]
        for n in _assigns + _assigns + _assigns:          # (aliases of aliases: the walk order is not the program order)
            if True:
                nm, a_ = n.targets[0].id, self_attr(n.value)
                # `getattr(self, "shm", None)`: the handle, or a falsy stand-in when the attribute was never set (what the
                # `try: ... except AttributeError: pass` around the original test is for)
                v_ = n.value
                # `in_use = bool(handle)`: a name for the handle's truth value -- tested, it tests the handle
                if a_ is None and isinstance(v_, ast.Call) and dotted(v_.func) == "bool" and len(v_.args) == 1 and not v_.keywords:
                    a_ = self_attr(v_.args[0]) or (alias.get(v_.args[0].id) if isinstance(v_.args[0], ast.Name) else None)
                if a_ is None and isinstance(v_, ast.Name) and alias.get(v_.id):
                    a_ = alias.get(v_.id)
                if a_ is None and isinstance(v_, ast.Call) and dotted(v_.func) == "getattr" and len(v_.args) == 3 and dotted(v_.args[0]) == "self" \
                        and isinstance(v_.args[1], ast.Constant) and isinstance(v_.args[2], ast.Constant) and not v_.args[2].value:
                    a_ = v_.args[1].value
                if a_ in ("shm", "existing_shm"):
                    alias[nm] = None if alias.get(nm, a_) != a_ else a_
                elif not (isinstance(n.value, ast.Constant) and not n.value.value) and nm in alias \
                        and not (isinstance(v_, (ast.Name, ast.Call)) and alias.get(nm)):      # (`= None` / `= False` in an except arm: no handle)
                    alias[nm] = None

        def attr_of(e):
            a_ = self_attr(e)
            if a_ is None and isinstance(e, ast.Name):
                a_ = alias.get(e.id)
            return a_

        def dotted_attr(e):
            """'self.shm' for self.shm or a local holding it"""
            a_ = attr_of(e)
            return "self." + a_ if a_ in ("shm", "existing_shm") else dotted(e)
        held_release = set()          # statements of a private release helper called from the arms count as the arm's own
        for n in walk_no_nested(d.node):
            if isinstance(n, ast.Call) and isinstance(n.func, ast.Attribute) and n.func.attr == "unlink":
                tgt = dotted_attr(n.func.value)
                okk = tgt == "self.shm"
                unknown = isinstance(n.func.value, ast.Name) and alias.get(n.func.value.id, 0) in (0, None)
                ctx.ob("owner", d, n, "%s.unlink()" % tgt, "only the owner's block is unlinked", None if (not okk and unknown) else okk,
                       "" if okk else ("`%s` is a local the analysis cannot tie to self.shm" % tgt if unknown else
                                       "an attached view removes the owner's segment from the system"))
        # per arm: `if self.shm:` / `if self.existing_shm:` bodies -- or the guard-clause spelling `if not self.X: return` + the rest
        arms = {}

        def find_arms(stmts):
            for i_, n in enumerate(stmts):
                # `try: if not self.X: return  except AttributeError: return` + the rest: the guard-clause spelling with the attribute
                # test protected the way the original's outer try protects it
                if isinstance(n, ast.Try) and not n.finalbody and not n.orelse and len(n.body) == 1 and isinstance(n.body[0], ast.If) \
                        and not n.body[0].orelse and len(n.body[0].body) == 1 and isinstance(n.body[0].body[0], ast.Return) \
                        and n.handlers and all(len(h_.body) == 1 and isinstance(h_.body[0], (ast.Return, ast.Pass)) for h_ in n.handlers) \
                        and stmts[i_ + 1:]:
                    t = n.body[0].test
                    if isinstance(t, ast.UnaryOp) and isinstance(t.op, ast.Not) and attr_of(t.operand) in ("shm", "existing_shm") \
                            and all(isinstance(h_.body[0], ast.Return) for h_ in n.handlers):
                        arms[attr_of(t.operand)] = ast.copy_location(ast.If(test=t.operand, body=stmts[i_ + 1:], orelse=[]), n)
                        continue
                if isinstance(n, ast.If):
                    t = n.test
                    if attr_of(t) in ("shm", "existing_shm"):
                        arms[attr_of(t)] = n
                    elif isinstance(t, ast.UnaryOp) and isinstance(t.op, ast.Not) and attr_of(t.operand) in ("shm", "existing_shm") \
                            and len(n.body) == 1 and isinstance(n.body[0], ast.Return) and not n.orelse and stmts[i_ + 1:]:
                        arms[attr_of(t.operand)] = ast.copy_location(ast.If(test=t.operand, body=stmts[i_ + 1:], orelse=[]), n)
                    elif isinstance(t, ast.UnaryOp) and isinstance(t.op, ast.Not) and attr_of(t.operand) in ("shm", "existing_shm") and n.orelse \
                            and all(isinstance(x, (ast.Pass, ast.Return)) for x in n.body):
                        arms[attr_of(t.operand)] = ast.copy_location(ast.If(test=t.operand, body=n.orelse, orelse=[]), n)
                for fld in ("body", "orelse", "finalbody"):
                    blk = getattr(n, fld, None)
                    if isinstance(blk, list) and not isinstance(n, (ast.FunctionDef, ast.ClassDef)):
                        find_arms(blk)
                for h in getattr(n, "handlers", []) or []:
                    find_arms(h.body)
        find_arms(d.node.body)
        for which in ("shm", "existing_shm"):
            arm = arms.get(which)
            if arm is None:
                mentions = any(self_attr(x) == which for x in walk_no_nested(d.node)) or \
                    any(isinstance(x, ast.Constant) and x.value == which for x in walk_no_nested(d.node)) or \
                    (any(isinstance(x, ast.Call) and isinstance(x.func, ast.Attribute) and x.func.attr == "close" for x in walk_no_nested(d.node))
                     and any(isinstance(x, ast.Call) and dotted(x.func) == "getattr" for x in walk_no_nested(d.node)))
                ctx.ob("owner", d, d.node, "if self.%s:" % which, "__del__ handles the %s case" % which, None if mentions else False,
                       "self.%s is handled in a shape the analysis does not read" % which if mentions else "no such arm")
                continue
            # a private helper of the class called from the arm with no arguments (`self._release_views()`) is read as part of the arm
            extra = []
            for c_ in [n for n in walk_no_nested(arm) if isinstance(n, ast.Call) and isinstance(n.func, ast.Attribute) and dotted(n.func.value) == "self"
                       and not n.args and not n.keywords and n.func.attr.startswith("_")]:
                hm = cls.resolve(c_.func.attr)
                if hm is not None and not any(isinstance(x, (ast.Return,)) and x.value is not None for x in walk_no_nested(hm.node)):
                    extra.append((c_, hm))
            if extra:
                arm = copy.deepcopy(arm)
                names = {hm.name: hm for _, hm in extra}

                class _Splice(ast.NodeTransformer):
                    def visit_Expr(self, e):
                        v = e.value
                        if isinstance(v, ast.Call) and isinstance(v.func, ast.Attribute) and dotted(v.func.value) == "self" and v.func.attr in names \
                                and not v.args and not v.keywords:
                            return [copy.deepcopy(x) for x in names[v.func.attr].node.body
                                    if not (isinstance(x, ast.Expr) and isinstance(x.value, ast.Constant))]
                        return e
                arm = _Splice().visit(arm)
                ast.fix_missing_locations(arm)
            closes = [n for n in walk_no_nested(arm) if isinstance(n, ast.Call) and isinstance(n.func, ast.Attribute) and n.func.attr == "close"
                      and dotted_attr(n.func.value) == "self." + which]
            dels = [self_attr(t) for n in walk_no_nested(arm) if isinstance(n, ast.Delete) for t in n.targets]
            del_lines = [n for n in walk_no_nested(arm) if isinstance(n, ast.Delete)]
            # `for name in ("a", "b"): delattr(self, name)`  and  `delattr(self, "a")`
            for n in walk_no_nested(arm):
                if isinstance(n, ast.For) and isinstance(n.iter, (ast.Tuple, ast.List)) and isinstance(n.target, ast.Name) \
                        and all(isinstance(e, ast.Constant) and isinstance(e.value, str) for e in n.iter.elts):
                    for c in calls_in(n):
                        if dotted(c.func) == "delattr" and len(c.args) == 2 and dotted(c.args[0]) == "self" and isinstance(c.args[1], ast.Name) \
                                and c.args[1].id == n.target.id:
                            dels.extend(e.value for e in n.iter.elts)
                            del_lines.append(n)
                elif isinstance(n, ast.Call) and dotted(n.func) == "delattr" and len(n.args) == 2 and dotted(n.args[0]) == "self" \
                        and isinstance(n.args[1], ast.Constant):
                    dels.append(n.args[1].value)
                    del_lines.append(n)
            okk = bool(closes)
            ctx.ob("owner", d, closes[0] if closes else arm, "self.%s.close()" % which, "the mapping is closed", okk)
            if closes:
                miss = [a for a in shm_attrs if a not in dels]
                order = all(comes_before(d.node, l, closes[0]) for l in del_lines)
                ctx.ob("owner", d, arm, "del %s before self.%s.close()" % (sorted(shm_attrs), which),
                       "every array viewing the block is deleted before close()", not miss and order,
                       "" if not miss and order else "not deleted first: %s" % (miss or "order"))
            unl = [n for n in walk_no_nested(arm) if isinstance(n, ast.Call) and isinstance(n.func, ast.Attribute) and n.func.attr == "unlink"]
            if which == "shm":
                okk = bool(unl) and bool(closes) and comes_before(d.node, closes[0], unl[0])
                ctx.ob("owner", d, unl[0] if unl else arm, "self.shm.unlink()", "the owner removes the segment after closing it", okk,
                       "" if okk else "dropping the owner leaves the segment in the system")
            else:
                ctx.ob("owner", d, unl[0] if unl else arm, "existing_shm arm", "a view only closes, it never unlinks", not unl)


_VIEW_METHODS = {"reshape", "ravel", "view", "transpose", "swapaxes", "squeeze", "T", "flat"}
_VIEW_FUNCS = {"np.frombuffer", "numpy.frombuffer", "np.asarray", "numpy.asarray", "np.reshape", "numpy.reshape", "np.ravel", "numpy.ravel",
               "np.ndarray", "numpy.ndarray", "memoryview", "np.lib.stride_tricks.as_strided", "np.atleast_1d", "np.atleast_2d",
               "np.squeeze", "numpy.squeeze", "np.transpose", "numpy.transpose"}


def _is_view_of(e, bases):
    """True when `e` may evaluate to an array sharing memory with `self.<b>` for some b in `bases`: the attribute itself, a slice of
    it, one of numpy's view-returning methods / functions applied to such a thing, or a display holding one."""
    if isinstance(e, (ast.Tuple, ast.List)):
        return any(_is_view_of(x, bases) for x in e.elts)
    if isinstance(e, ast.Dict):
        return any(_is_view_of(x, bases) for x in e.values if x is not None)
    if isinstance(e, ast.IfExp):
        return _is_view_of(e.body, bases) or _is_view_of(e.orelse, bases)
    if self_attr(e) in bases:
        return True
    if isinstance(e, ast.Subscript):
        sl = e.slice
        parts = sl.elts if isinstance(sl, ast.Tuple) else [sl]
        # (an index with no slice in it selects one element -- a scalar copy -- of an array of that many dimensions; a fancy index
        # copies; anything with a slice is a view)
        return any(isinstance(x, ast.Slice) for x in parts) and _is_view_of(e.value, bases)
    if isinstance(e, ast.Attribute) and e.attr in _VIEW_METHODS:
        return _is_view_of(e.value, bases)
    if isinstance(e, ast.Call):
        if isinstance(e.func, ast.Attribute) and e.func.attr in _VIEW_METHODS:
            return _is_view_of(e.func.value, bases)
        if (dotted(e.func) or "") in _VIEW_FUNCS and e.args:
            return _is_view_of(e.args[0], bases)
    return False


def _shm_backed(F, cls):
    out = []
    for dd in F.attr_defs(cls):
        al = array_alloc(dd.value)
        if al and al["kind"] == "frombuffer" and dd.attr not in out:
            out.append(dd.attr)
    # attributes that CACHE a view of one of those arrays (`self._cells = (self.lhh.reshape(...), ...)`) export the block's buffer just
    # as the arrays do: close() fails while they are alive
    grew = True
    while grew and out:
        grew = False
        for m in cls.methods.values():
            for n in walk_no_nested(m.node):
                if isinstance(n, ast.Assign):
                    for t in n.targets:
                        a = self_attr(t)
                        if a and a not in out and _is_view_of(n.value, set(out)):
                            out.append(a)
                            grew = True
    return out


def literal_decisions(ev, subject):
    """{literal: polarity} for the decisions `subject == <constant>` (either operand order) on the path of `ev`.  `subject` is a
    predicate over walker values (e.g. "is the parameter cms_type")."""
    out = {}
    for (_, _, cc) in ev.path:
        for c in conjuncts(cc):
            pol = True
            while c[0] == "not":
                c, pol = c[1], not pol
            if c[0] != "atom" or not (isinstance(c[1], tuple) and c[1] and c[1][0] == "cmp" and c[1][1] == "eq"):
                continue
            info = c[2] or {}
            a, b = info.get("a"), info.get("b")
            for x, y in ((a, b), (b, a)):
                if subject(x) and isinstance(y, Opaque) and isinstance(y.desc, tuple) and len(y.desc) == 2 and y.desc[0] == "const":
                    out[y.desc[1]] = pol
    return out


def is_param(name):
    def f(v):
        return isinstance(v, Num) and v.lin == Lin.term(("param", name))
    return f


def called_name(ev):
    """Name of what a call event calls, looking through a local alias of a module-level name (`cls = CountMinLog16; cls(...)`)."""
    f = ev.node.func if isinstance(ev.node, ast.Call) else None
    if isinstance(f, ast.Name):
        v = (getattr(ev, "envsnap", None) or {}).get(f.id)
        if isinstance(v, Opaque) and isinstance(v.desc, tuple) and len(v.desc) == 2 and v.desc[0] == "global":
            return v.desc[1]
        return f.id
    return dotted(f) if f is not None else None


def dispatch_table(w, subject, classes_only=None):
    """{literal: set of called names} for the calls reached on paths that decided `subject == literal`; only the literal decided
    True last on the path counts (an elif chain decides the earlier literals False)."""
    table = {}
    for e in w.events:
        if e.kind != "call" or not isinstance(e.node, ast.Call):
            continue
        nm = called_name(e)
        if classes_only is not None and nm not in classes_only:
            continue
        dec = literal_decisions(e, subject)
        pos = [l for l, pol in dec.items() if pol]
        for l in pos:
            table.setdefault(l, set()).add(nm)
    return table


def rule_argsdict(ctx, classes=SKETCH_CLASSES):
    F = facts_of(ctx)
    factories = {"countmin": ctx.model.func("countmin", "CountMin"), "heavyhitters": None, "hyperloglog": None}
    for cls in F.classes(classes):
        ctor = F.ctor(cls)
        d = [x for x in F.attr_defs(cls) if x.attr == "args"]
        if len(d) != 1 or not isinstance(d[0].value, ast.Dict):
            ctx.ob("argsdict", ctor, ctor.node, "self.args = {...}", "constructor records its reconstruction arguments", None)
            continue
        dct = d[0].value
        keys = [k.value if isinstance(k, ast.Constant) else None for k in dct.keys]
        vals = dict(zip(keys, dct.values))
        cparams = [p for p in ctor.params if p not in ("self", "shared_memory")]
        fac = factories.get(cls.module.short)
        fparams = set(fac.params) if fac else set(cparams)
        miss = [p for p in cparams if p not in keys]
        extra = [k for k in keys if k not in fparams]
        ctx.ob("argsdict", ctor, d[0].stmt, "self.args keys %s" % keys,
               "args covers every constructor parameter and only parameters the factory accepts", not miss and not extra,
               "" if not miss and not extra else "missing %s, not accepted by the factory %s" % (miss, extra))
        for p in cparams:
            v = vals.get(p)
            if v is None:
                continue
            okk = isinstance(v, ast.Name) and v.id == p
            why = ""
            if not okk:
                # int(self.p) / self.p where the attribute is the parameter itself or its 64-bit cast: the same value
                u = v
                while isinstance(u, ast.Call) and dotted(u.func) in ("int", "float") and len(u.args) == 1 and not u.keywords:
                    u = u.args[0]
                a_ = self_attr(u)
                if a_ == p:
                    adefs = [x for x in F.attr_defs(cls) if x.attr == p]
                    def _wide(x):
                        if isinstance(x, ast.Name):
                            return x.id == p
                        return isinstance(x, ast.Call) and (dotted(x.func) or "").split(".")[-1] in ("uint64", "int64", "float64") \
                            and len(x.args) == 1 and isinstance(x.args[0], ast.Name) and x.args[0].id == p
                    okk = bool(adefs) and all(_wide(x.value) for x in adefs)
                if not okk:
                    why = "the recorded value is `%s`, not the constructor's `%s`: a sketch rebuilt from args (attached views, workers, mergers) differs" % (unparse(v, 50), p)
            ctx.ob("argsdict", ctor, v, "args[%r] = %s" % (p, unparse(v)), "each entry is the same-named constructor parameter", okk, why)
        if fac is not None:
            tv = vals.get("cms_type")
            lit = tv.value if isinstance(tv, ast.Constant) else None
            # the factory maps this literal back to this class (on every path that decided cms_type == literal)
            cm_classes = {c.name for c in F.classes(COUNTMIN)}
            tp = "cms_type" if "cms_type" in fac.params else (fac.params[0] if fac.params else "cms_type")
            dtab = dispatch_table(F.walk(fac), is_param(tp), cm_classes)
            target = dtab.get(lit)
            okk = target == {cls.name}
            if not dtab:
                okk = None          # the factory decides on its type string in a way the analysis does not read at all
            if lit is None and tv is not None:
                okk = None          # the recorded type is not a literal here (a value handed in): not decided
            ctx.ob("argsdict", ctor, tv or d[0].stmt, "cms_type=%r -> %s" % (lit, sorted(target) if target else None),
                   "the factory maps the recorded type string back to this class", okk)


def rule_factory(ctx):
    """CountMin(): every constructor call forwards width, depth, (max_count, num_reserved), shared_memory to the right positions."""
    F = facts_of(ctx)
    fac = ctx.model.func("countmin", "CountMin")
    w = F.walk(fac)
    calls = [e for e in w.events if e.kind == "call" and isinstance(e.node, ast.Call) and ctx.model.lookup_class(fac.module, called_name(e) or "")]
    for g in group_by_node(calls):
        res = []
        for e in g:
            cls = ctx.model.lookup_class(fac.module, called_name(e))
            ctor = F.ctor(cls)
            cp = [p for p in ctor.params if p != "self"]
            why = ""
            for i, a in enumerate(e.args):
                if not (i < len(cp) and isinstance(a, Num) and a.lin == Lin.term(("param", cp[i]))):
                    why = "positional argument %d of %s(...) is not the factory's `%s`" % (i, cls.name, cp[i] if i < len(cp) else "?")
            for kname, a in (e.kwargs or {}).items():
                if not (kname in cp and isinstance(a, Num) and a.lin == Lin.term(("param", kname))):
                    why = "keyword %s of %s(...) is not the factory's `%s`" % (kname, cls.name, kname)
            passed = {cp[i] for i in range(min(len(e.args), len(cp)))} | set((e.kwargs or {}))
            if "shared_memory" not in passed:
                why = "shared_memory is not forwarded"
            # a constructor parameter the factory also has may be left to the class default only where the caller gave None
            from .rules_hh import _none_side
            for p_ in cp:
                if p_ in fac.params and p_ not in passed and _none_side(e, p_) is not True:
                    why = "`%s` is not forwarded on a path that did not decide `%s is None`: a falsy value (0) is replaced by the class default" % (p_, p_)
            res.append((not why, why or "%s(...) receives the same-named factory parameters" % cls.name, fact_strs(e)))
        agg(ctx, "argsdict", fac, g[0].node, unparse(g[0].node, 90), "the factory forwards each argument to the same-named constructor parameter", res)
    if not calls:
        ctx.ob("argsdict", fac, fac.node, "CountMin(...)", "the factory constructs count-min sketches", False, "no constructor call found")


def rule_attach_table(ctx):
    F = facts_of(ctx)
    asm = ctx.model.func("helpers", "attach_shared_memory")
    pm = ctx.model.func("helpers", "parallel_merging")
    # tag -> factory: what attach_shared_memory calls (with **args) on the paths that decided sketch_type == tag
    wa = F.walk(asm)
    tagp = asm.params[0] if asm.params else "sketch_type"
    facs = {"CountMin", "HeavyHitters", "HyperLogLog"} | {c.name for c in F.classes(SKETCH_CLASSES)}
    dt = dispatch_table(wa, is_param(tagp), facs)
    t2f = {tag: (sorted(v)[0] if len(v) == 1 else None) for tag, v in dt.items()}
    # the tag / args variables of parallel_merging: first two elements of its descriptor triples
    tagvar = argvar = None
    for n in walk_no_nested(pm.node):
        if isinstance(n, ast.Tuple) and len(n.elts) == 3 and isinstance(n.elts[2], ast.Attribute) and n.elts[2].attr == "name" \
                and isinstance(n.elts[0], ast.Name) and isinstance(n.elts[1], ast.Name):
            tagvar, argvar = n.elts[0].id, n.elts[1].id
    # class -> tag: the tag inside the descriptors that parallel_merging hands to its mergers, on the paths that decided
    # isinstance(<first sketch>, Class) positively
    c2t = {}
    wpm = F.walk(pm)
    for e in wpm.events:
        if e.kind != "call" or not (isinstance(e.node, ast.Call) and isinstance(e.node.func, ast.Attribute) and e.node.func.attr == "Process"):
            continue
        kw = e.kwargs or {}
        a = kw.get("args")
        tags = set()
        if isinstance(a, Tup):
            for d in a.items:
                if isinstance(d, Tup) and d.items and isinstance(d.items[0], Opaque) and isinstance(d.items[0].desc, tuple) and d.items[0].desc[0] == "const":
                    tags.add(d.items[0].desc[1])
        if len(tags) != 1:
            continue
        for (_, _, cc) in e.path:
            for c in conjuncts(cc):
                pol = True
                while c[0] == "not":
                    c, pol = c[1], not pol
                if pol and c[0] == "atom" and isinstance(c[1], tuple) and c[1][0] == "truth":
                    try:
                        t = ast.parse(c[1][1], mode="eval").body
                    except SyntaxError:
                        continue
                    if isinstance(t, ast.Call) and dotted(t.func) == "isinstance" and len(t.args) == 2:
                        c2t[dotted(t.args[1])] = next(iter(tags))
    # the factory receives exactly the recorded arguments: `**<the args parameter>`, unfiltered and unmodified
    argp = asm.params[1] if len(asm.params) > 1 else "sketch_args"
    fcalls = [e for e in wa.events if e.kind == "call" and isinstance(e.node, ast.Call) and called_name(e) in facs]
    res = []
    for e in fcalls:
        star = (e.kwargs or {}).get(None)
        okk = isinstance(star, Num) and star.lin == Lin.term(("param", argp)) and not e.args and set((e.kwargs or {})) == {None}
        res.append((bool(okk), "%s(**%s)" % (called_name(e), argp) if okk else
                    "the sketch is rebuilt from something other than the recorded arguments `%s` as they are (filtered, copied or "
                    "extended arguments can differ from the owner's: e.g. a dropped num_reserved=0)" % argp, fact_strs(e)))
    if not res:
        # no call of a factory by name: a call through a local callable that receives exactly `**args` is a table-driven dispatch the
        # analysis does not read (undecided); anything else has no factory call at all
        via_var = [n for n in walk_no_nested(asm.node) if isinstance(n, ast.Call) and isinstance(n.func, ast.Name) and not n.args
                   and len(n.keywords) == 1 and n.keywords[0].arg is None and isinstance(n.keywords[0].value, ast.Name) and n.keywords[0].value.id == argp]
        res = [(None, "the factory is called through the variable `%s`: table-driven dispatch not read" % via_var[0].func.id, [])] if via_var \
            else [(False, "no factory call", [])]
    agg(ctx, "attach-table", asm, fcalls[0].node if fcalls else asm.node, "%s(**%s)" % ("<factory>", argp),
        "attach_shared_memory constructs the local sketch with exactly the owner's recorded arguments", res)
    want = {"cms": ("CountMin", "CountMinLinear"), "hh": ("HeavyHitters", "HeavyHitters"), "hll": ("HyperLogLog", "HyperLogLog")}
    for tag, (fac, cname) in want.items():
        okk = t2f.get(tag) == fac
        if not dt:
            okk = None          # no decision on the tag is readable at all (e.g. a lookup helper over a table): not decided
        ctx.ob("attach-table", asm, asm.node, "%r -> %s" % (tag, t2f.get(tag)), "attach_shared_memory builds tag %r with %s(**args)" % (tag, fac), okk)
        okk = c2t.get(cname) == tag
        if not c2t:
            okk = None          # no class -> tag decision of parallel_merging is readable at all: not decided
        ctx.ob("attach-table", pm, pm.node, "%s -> %r" % (cname, c2t.get(cname)), "parallel_merging tags %s instances %r (inverse of the factory table)" % (cname, tag), okk)
    # attach after construction
    calls = [n for n in walk_no_nested(asm.node) if isinstance(n, ast.Call) and isinstance(n.func, ast.Attribute) and n.func.attr == "attach_existing_shm"]
    # one call after the dispatch, or one in every arm of the dispatch (as many as there are factory calls)
    n_fac = len({id(e.node) for e in fcalls})
    okk = len(calls) in (1, n_fac) and bool(calls) and all(len(c_.args) == 1 and isinstance(c_.args[0], ast.Name) and c_.args[0].id == asm.params[2]
                                                            and not c_.keywords for c_ in calls)
    ctx.ob("attach-table", asm, calls[0] if calls else asm.node, "local_sketch.attach_existing_shm(shm_name)", "the new sketch is attached to the named block", okk)
    # triples (tag, args, shm.name) built in that order
    pa = ctx.model.func("helpers", "parallel_add")
    for fn in (pa, pm):
        for n in walk_no_nested(fn.node):
            if isinstance(n, ast.Tuple) and len(n.elts) == 3 and isinstance(n.elts[2], ast.Attribute) and n.elts[2].attr == "name":
                tagn, argn, shmn = n.elts
                src_obj = dotted(shmn.value.value) if isinstance(shmn.value, ast.Attribute) else None
                if isinstance(tagn, ast.Constant):
                    # parallel_add: ("cms", cms_array[i].args, cms_array[i].shm.name)
                    from .rules_par import sketch_roles
                    arr = (sketch_roles(fn).get(tagn.value) or {}).get("array")
                    a_obj = argn.value if isinstance(argn, ast.Attribute) and argn.attr == "args" else None
                    s_obj = shmn.value.value if isinstance(shmn.value, ast.Attribute) and shmn.value.attr == "shm" else None
                    okk = (arr is not None and a_obj is not None and s_obj is not None and unparse(a_obj) == unparse(s_obj)
                           and isinstance(a_obj, ast.Subscript) and dotted(a_obj.value) == arr)
                    # the element used is the one created in this iteration: index == loop variable of the enclosing for
                    if okk:
                        loops = [l for l in walk_no_nested(fn.node) if isinstance(l, ast.For) and is_inside(fn.node, n, l)]
                        sl = a_obj.slice
                        last = (isinstance(sl, ast.UnaryOp) and isinstance(sl.op, ast.USub) and isinstance(sl.operand, ast.Constant) and sl.operand.value == 1) \
                            or (isinstance(sl, ast.Constant) and sl.value == -1)
                        okk = bool(loops) and isinstance(loops[-1].target, ast.Name) and unparse(sl) == loops[-1].target.id
                        if not okk and last and loops:
                            # `arr[-1]`: the element this iteration appended just before (an append to the role's list earlier in the same loop body)
                            from .rules_par import _appends
                            okk = any(name == arr and is_inside(fn.node, node, loops[-1]) and comes_before(fn.node, node, n) for name, v, node in _appends(fn))
                    elif arr is not None and isinstance(a_obj, ast.Name) and isinstance(s_obj, ast.Name) and a_obj.id == s_obj.id:
                        # ... or the object itself: the local that this iteration appended to the role's list
                        from .rules_par import _appends
                        okk = any(name == arr and isinstance(node.args[0], ast.Name) and node.args[0].id == a_obj.id
                                  for name, v, node in _appends(fn))
                        stores = [x for x in walk_no_nested(fn.node) if isinstance(x, ast.Name) and x.id == a_obj.id and isinstance(x.ctx, ast.Store)]
                        okk = okk and len(stores) == 1
                        if not okk and len(stores) == 1:
                            # ... or a local bound once to the element this iteration just appended: `x = arr[-1]` / `x = arr[i]`
                            dfn = next((st for st in walk_no_nested(fn.node) if isinstance(st, ast.Assign) and len(st.targets) == 1
                                        and isinstance(st.targets[0], ast.Name) and st.targets[0].id == a_obj.id), None)
                            v_ = dfn.value if dfn is not None else None
                            if isinstance(v_, ast.Subscript) and dotted(v_.value) == arr:
                                sl = v_.slice
                                last = (isinstance(sl, ast.UnaryOp) and isinstance(sl.op, ast.USub) and isinstance(sl.operand, ast.Constant) and sl.operand.value == 1) \
                                    or (isinstance(sl, ast.Constant) and sl.value == -1)
                                loops = [l for l in walk_no_nested(fn.node) if isinstance(l, ast.For) and is_inside(fn.node, n, l)]
                                byvar = bool(loops) and isinstance(loops[-1].target, ast.Name) and isinstance(sl, ast.Name) and sl.id == loops[-1].target.id
                                appended_before = any(name == arr and comes_before(fn.node, node, dfn) for name, v, node in _appends(fn))
                                okk = (last or byvar) and appended_before
                else:
                    okk = isinstance(tagn, ast.Name) and tagn.id == tagvar and isinstance(argn, ast.Name) and argn.id == argvar
                    if not okk and fn is pa and isinstance(tagn, ast.Name):
                        okk = None      # the tag is a variable (table-driven construction the analysis could not unroll): not decided
                ctx.ob("attach-table", fn, n, unparse(n, 80), "descriptor triple is (tag, args of that sketch, name of that sketch's block)",
                       None if okk is None else bool(okk))


# ---------------------------------------------------------------------------
# C12 delegation / windows
# ---------------------------------------------------------------------------

def rule_deleg(ctx, classes=SKETCH_CLASSES):
    F = facts_of(ctx)
    done = set()
    for cls in F.classes(classes):
        for mname in ("update", "update_ngram", "__getitem__"):
            m = cls.resolve(mname)
            if m is None:
                ctx.ob("deleg", (cls.module.relpath, cls.name), cls.node, "%s.%s" % (cls.name, mname), "entry point exists", False if mname != "__getitem__" or cls.name != "HyperLogLog" else True)
                continue
            if m.key in done:
                # inherited: the call self.add(...) resolves through the MRO to the subclass's own add
                tgt = cls.resolve("add" if mname == "update" else "add_ngram" if mname == "update_ngram" else "query")
                ctx.ob("deleg", m, m.node, "%s.%s -> %s" % (cls.name, mname, tgt.qualname if tgt else None),
                       "inherited entry point dispatches to this class's own single-item method", tgt is not None)
                continue
            done.add(m.key)
            if mname == "update":
                _check_update(ctx, F, cls, m)
            elif mname == "update_ngram":
                _deleg_loops(ctx, F, m, "add_ngram", "update_ngram(keys, n) == add_ngram(key, n) for each key in order", want_dispatch=False,
                             extra_args=[m.params[2]] if len(m.params) > 2 else ["ngram"])
            elif mname == "__getitem__" and cls.module.short == "countmin":
                rets = [n for n in walk_no_nested(m.node) if isinstance(n, ast.Return)]
                okk = len(rets) == 1 and isinstance(rets[0].value, ast.Call) and dotted(rets[0].value.func) == "self.query" \
                    and len(rets[0].value.args) == 1 and isinstance(rets[0].value.args[0], ast.Name) and rets[0].value.args[0].id == m.params[1]
                ctx.ob("deleg", m, rets[0] if rets else m.node, "return self.query(key)", "sketch[key] == sketch.query(key)", okk)


def _deleg_loops(ctx, F, m, callee, goal, want_dispatch, extra_args=()):
    """Path-based delegation check for update()/update_ngram():
      * every normal exit ran exactly one loop over the argument (or over its .items() on the dict side of the isinstance dispatch);
      * every iteration of that loop calls self.<callee> exactly once with the loop's element(s) (+ extra_args), in order;
      * self.<callee> is called nowhere else."""
    w = F.walk(m)
    keysp = m.params[1] if len(m.params) > 1 else "keys"
    cname = "self." + callee
    calls = [e for e in w.events if e.kind == "call" and isinstance(e.node, ast.Call) and dotted(e.node.func) == cname]
    starts = [e for e in w.events if e.kind == "loopstart" and isinstance(e.node, ast.For)]

    def mode(ls):
        it = ls.node.iter
        if isinstance(it, ast.Name) and it.id == keysp:
            return "seq"
        if isinstance(it, ast.Call) and dotted(it.func) == keysp + ".items" and not it.args and not it.keywords:
            return "items"
        return "other"

    def dict_side(ev):
        """True/False: the path decided isinstance(keys, Dict) that way; None: not decided."""
        for (_, _, cc) in ev.path:
            for c in conjuncts(cc):
                pol = True
                while c[0] == "not":
                    c, pol = c[1], not pol
                if c[0] == "atom" and isinstance(c[1], tuple) and c[1][0] == "truth":
                    try:
                        t = ast.parse(c[1][1], mode="eval").body
                    except SyntaxError:
                        continue
                    if isinstance(t, ast.Call) and dotted(t.func) == "isinstance" and len(t.args) == 2 and isinstance(t.args[0], ast.Name) \
                            and t.args[0].id == keysp and (dotted(t.args[1]) or "").split(".")[-1] in ("Dict", "dict", "Mapping"):
                        return pol
        return None

    # shapes this rule does not read: the elements are pulled by hand (iter/next, a while loop) or the whole job is handed to something
    # that receives `self` -- then "no delegation loop found" is no verdict
    unread = any(isinstance(n, ast.While) for n in walk_no_nested(m.node)) or \
        any(isinstance(n, ast.Call) and (dotted(n.func) in ("iter", "next", "map") or
                                         any(isinstance(a_, ast.Name) and a_.id == "self" for a_ in n.args)) for n in walk_no_nested(m.node))
    res = []
    rets = [e for e in w.events if e.kind == "ret"]
    for r in rets:
        pre = on_path(w.events, r)
        ls = [x for x in pre if x in starts and any(c.loops and c.loops[0] is x.loop for c in calls)]
        if not ls and unread and not [c for c in pre if c in calls and not c.loops]:
            res.append((None, "no `for` loop over the argument on this path, but the method iterates by hand / delegates to a helper: shape not read", fact_strs(r)))
            continue
        stray = [c for c in pre if c in calls and not c.loops]
        side = dict_side(r)
        if stray:
            res.append((False, "self.%s is also called outside the loop" % callee, fact_strs(r)))
        elif len(ls) != 1:
            res.append((False, "%d delegation loops on one path" % len(ls), fact_strs(r)))
        elif want_dispatch and side is None:
            res.append((False, "a path does not decide isinstance(%s, Dict)" % keysp, fact_strs(r)))
        else:
            md = mode(ls[0])
            want = "items" if (want_dispatch and side) else "seq"
            okk = md == want
            res.append((okk, "loop over %s on the %s side" % ("keys.items()" if md == "items" else "keys", "dict" if side else "sequence") if okk else
                        ("the %s side iterates `%s`" % ("dict" if side else "sequence", unparse(ls[0].node.iter, 40))), fact_strs(r)))
    agg(ctx, "deleg", m, m.node, "%s: one loop per call" % m.qualname, goal, res or [(None, "no normal exit", [])])
    # the loop bodies
    res = []
    for x in starts:
        mine = [c for c in calls if c.loops and c.loops[0] is x.loop]
        if not mine:
            continue
        md = mode(x)
        tg = x.node.target
        if md == "seq" and isinstance(tg, ast.Name):
            exp = [tg.id] + list(extra_args)
        elif md == "items" and isinstance(tg, (ast.Tuple, ast.List)) and len(tg.elts) == 2 and all(isinstance(e, ast.Name) for e in tg.elts):
            exp = [tg.elts[0].id] + ([tg.elts[1].id] if want_dispatch else []) + list(extra_args)
        else:
            res.append((False, "elements are taken from `%s`, not from `%s` in order" % (unparse(x.node.iter, 40), keysp), []))
            continue
        if x.node.orelse or len(mine[0].loops) != 1:
            res.append((False, "nested / for-else delegation loop", []))
            continue
        ends = [e for e in w.events if e.kind == "loopend" and e.loop is x.loop]
        for le in ends:
            inbody = [c for c in on_path(w.events, le) if c in mine]
            if len(inbody) != 1:
                res.append((False, "the loop over `%s` calls self.%s %d times per element" % (keysp, callee, len(inbody)), fact_strs(le)))
                continue
            c = inbody[0].node
            got = [unparse(resolve_temps(m.node, a_)) for a_ in c.args]
            okk = got == exp and not c.keywords
            if okk:
                # the names really denote the loop's element and the method's own argument: neither is rebound anywhere in the method
                # (`ngram = min(ngram, len(key))` inside the loop carries the clamp over to the later elements)
                stores = {}
                loop_targets = {id(t_) for f_ in walk_no_nested(m.node) if isinstance(f_, ast.For) for t_ in ast.walk(f_.target)}
                for n_ in walk_no_nested(m.node):
                    if isinstance(n_, ast.Name) and isinstance(n_.ctx, (ast.Store, ast.Del)) and id(n_) not in loop_targets:
                        stores[n_.id] = stores.get(n_.id, 0) + 1
                rebound = [nm for nm in exp if stores.get(nm, 0) != 0]
                if rebound:
                    res.append((False, "`%s` is rebound inside %s: what is passed on is not the caller's argument / the element itself" % (rebound[0], m.qualname), fact_strs(le)))
                    continue
            res.append((okk, "self.%s(%s) per element" % (callee, ", ".join(exp)) if okk else
                        "each element is passed on as `%s`, not self.%s(%s)" % (unparse(c, 60), callee, ", ".join(exp)), fact_strs(le)))
        broken = [n for b_ in x.node.body for n in walk_no_nested(b_) if isinstance(n, (ast.Break, ast.Continue, ast.Return))]
        if broken:
            res.append((False, "the loop can skip or stop before the last element (%s)" % type(broken[0]).__name__.lower(), []))
    agg(ctx, "deleg", m, starts[0].node if starts else m.node, "%s: loop body" % m.qualname, goal,
        res or [(None if unread else False, "no loop delegating to self.%s" % callee + (" (the method iterates by hand / delegates to a helper: shape not read)" if unread else ""), [])])


def _check_update(ctx, F, cls, m):
    hll = cls.module.short == "hyperloglog"
    if hll:
        # keys only: iterating a dict yields its keys
        _deleg_loops(ctx, F, m, "add", "update(list|dict) == add(key) per element / per dict key (multiplicities ignored)", want_dispatch=False)
    else:
        _deleg_loops(ctx, F, m, "add", "update(dict) == add(key, value) per item; update(list) == add(key) per element in order", want_dispatch=True)


def ngram_kernels(F, classes=SKETCH_CLASSES):
    out = []
    for cls in F.classes(classes):
        m = cls.methods.get("add_ngram")
        if m is None:
            continue
        for k in F.calls_from(m):
            if k.callee.is_kernel and k.callee not in out:
                out.append((cls, m, k.callee))
    seen, res = set(), []
    for c, m, k in out:
        if k.key not in seen:
            seen.add(k.key)
            res.append((c, m, k))
    return res


def _monotone_break_bound(w, k, lp):
    """`for i in range(a, b): [pure assignments]; if <i + r > 0>: break; ...` -- a guard that is linear in the loop variable with
    coefficient +1 stays true once it is true, so the loop body after the guard runs exactly for i in range(a, min(b, R)) with R the
    first i that satisfies the guard.  Returns (R, break nodes) when every break of the loop is of that form and R <= b is entailed at
    loop entry; None otherwise."""
    brs = [e for e in w.events if e.kind == "loopbreak" and getattr(e, "loop", None) is lp]
    if not brs or lp.kind != "range" or lp.varterm is None or not isinstance(lp.node, ast.For):
        return None
    body = lp.node.body
    R = None
    for e in brs:
        # the guarding `if` is a top-level statement of the body, preceded only by assignments without calls (casts aside)
        guard = e.path[-1][0] if e.path else None         # (the event's own node is the loop statement)
        if not (isinstance(guard, ast.If) and any(st is guard for st in body)) or guard.orelse or e.path[-1][1] is not True \
                or not (len(guard.body) == 1 and isinstance(guard.body[0], ast.Break)):
            return None
        for st in body[:body.index(guard)]:
            if not isinstance(st, ast.Assign) or any(isinstance(x, ast.Call) and (dotted(x.func) or "").split(".")[-1] not in
                                                     ("uint64", "uint32", "int64", "int", "uint8", "uint16") for x in ast.walk(st)):
                return None
        ent = [pe for pe in e.path if pe[0] is guard]
        if not ent:
            return None
        c = ent[-1][2]
        if c[0] != "le" or (len(c) > 2 and c[2]):
            return None
        lin = c[1]                     # lin <= 0 on the breaking path
        if lin.c.get(lp.varterm) != -1:
            return None
        r_here = lin + Lin.term(lp.varterm)          # lin = R - i
        if any(t == lp.varterm for t in r_here.terms()) or (R is not None and r_here != R):
            return None
        R = r_here
    ls = [x for x in w.events if x.kind == "loopstart" and x.loop is lp]
    if R is None or not ls or not w.P.prove_le0(R - lp.stop, ls[0].facts):
        return None
    return R, {id(e.path[-1][0]) for e in brs}


def rule_window(ctx, classes=SKETCH_CLASSES):
    F = facts_of(ctx)
    from .rules_arith import walk_kernel
    for cls, meth, k in ngram_kernels(F, classes):
        w = walk_kernel(F, k)
        keyp = [p for p, t in k.ptypes.items() if t.kind == "bytes"][0]
        # the adds of an n-gram kernel: calls of kernels that receive (a slice of) the key
        calls = [e for e in w.events if e.kind == "call" and e.callee is not None and e.callee.is_kernel and not getattr(e, "inlined", False)
                 and any(isinstance(a, Bytes) for a in e.args)]
        single = [c for c in calls if not c.loops]
        looped = [c for c in calls if c.loops]
        L = Lin.term(("len", keyp))
        n = Lin.term(("param", "ngram"))
        # whole-key branch: facts entail L - n <= 0 ; the call passes the whole key with multiplicity 1
        res = []
        for c in single:
            am = dict(zip(c.callee.params, c.args))
            kv = am.get(keyp) if keyp in am else next((a for a in c.args if isinstance(a, Bytes)), None)
            okk = isinstance(kv, Bytes) and kv.root == keyp and kv.start == Lin.const(0) and (kv.stop is None or kv.stop == L)     # key / key[0:len(key)]
            p = w.P.prove_le0(L - n, c.facts)
            vv = am.get("value")
            okv = vv is None or (isinstance(vv, Num) and vv.lin == Lin.const(1))
            res.append((bool(okk and p and okv), "whole key added once when len(key) <= n" if okk and p and okv else
                        ("the short-key branch does not add the whole key" if not okk else
                         "the whole-key branch is taken although len(key) > n is possible" if not p else "multiplicity is not 1"), fact_strs(c)))
        # one-loop form: windows of size min(len, n) starting at 0 .. len - size.  For len <= n that is the single window key[0:len]
        # (the whole key), otherwise the length-n windows: both clauses at once
        def _min_len_n(lin):
            t = lin.single_term()
            if t is None or t[0] != "min" or lin != Lin.term(t) or t not in w.P.minmax:
                return False
            kind, a_, b_ = w.P.minmax[t]
            return kind == "min" and {a_.key(), b_.key()} == {L.key(), n.key()}
        def _whole_len(c_, size_):
            # a window as long as the key, on a path that has established len(key) <= n: the single window of the short-key case
            return size_ == L and bool(w.P.prove_le0(L - n, c_.facts))
        unified = (not single) and bool(looped) and all(
            isinstance(kv_, Bytes) and kv_.stop is not None and (_min_len_n(kv_.stop - kv_.start) or _whole_len(c_, kv_.stop - kv_.start)
                                                                 or (kv_.stop - kv_.start) == n)
            for c_, kv_ in [(c, next((a for a in c.args if isinstance(a, Bytes)), None)) for c in looped]) and any(
            isinstance(kv_, Bytes) and kv_.stop is not None and (kv_.stop - kv_.start) != n
            for kv_ in [next((a for a in c.args if isinstance(a, Bytes)), None) for c in looped])
        if not unified:
            agg(ctx, "window", k, single[0].node if single else k.node, "%s: whole-key branch" % k.name,
                "len(key) <= n: the key itself is added, once", res)
        res = []
        for c in looped:
            lp = c.loops[-1]
            am = dict(zip(c.callee.params, c.args))
            kv = next((a for a in c.args if isinstance(a, Bytes)), None)
            i = Lin.term(lp.varterm) if lp.varterm else None
            # windows key[S : S + n] with S = v + c for the loop variable v of `range(s0, e0)`: the first window starts at 0
            # (s0 + c == 0) and the last one at len - n (e0 - 1 + c == len - n); `for i in range(len - n + 1): key[i : i + n]` is c = 0
            size = (kv.stop - kv.start) if isinstance(kv, Bytes) and kv.stop is not None else None
            ok2 = isinstance(kv, Bytes) and kv.root == keyp and i is not None and size is not None \
                and (size == n or (unified and (_min_len_n(size) or _whole_len(c, size)))) \
                and lp.varterm not in (kv.start - i).terms()
            cshift = (kv.start - i) if ok2 else Lin.const(0)
            wsize = size if ok2 else n
            mb = _monotone_break_bound(w, k, lp)
            eff_stop = mb[0] if mb is not None else lp.stop
            ok1 = len(c.loops) == 1 and lp.kind == "range" and lp.step == Lin.const(1) and (lp.start + cshift) == Lin.const(0) \
                and (eff_stop - 1 + cshift) == L - wsize
            # the (unsigned) loop bound must not wrap: at loop entry the facts entail  len - size + 1 >= 0
            ls = [x for x in w.events if x.kind == "loopstart" and x.loop is lp]
            p = bool(ls) and (w.P.prove_le0(-(L - wsize + 1), ls[0].facts) or (unified and ok2 and size != n))       # min(len, n) <= len
            vv = am.get("value")
            okv = vv is None or (isinstance(vv, Num) and vv.lin == Lin.const(1))
            okk = ok1 and ok2 and p and okv
            res.append((bool(okk), "windows key[i:i+n] for i in range(len - n + 1), each added once" if okk else
                        ("loop is not range(len(key) - n + 1) from 0" if not ok1 else
                         "slice is not key[i : i + n]" if not ok2 else
                         "window loop entered although len(key) < n is possible" if not p else "multiplicity is not 1"), fact_strs(c)))
        agg(ctx, "window", k, looped[0].node if looped else k.node, "%s: window loop" % k.name,
            "len(key) > n: every length-n window is added once, in order", res)
        # each window is added by the kernel add() itself uses, and the window loop is never left before the last window
        madd = cls.methods.get("add")
        addk = {c.callee.key for c in (F.calls_from(madd) if madd else []) if c.callee.is_kernel}
        own_stores = [e for e in w.events if e.kind == "store" and e.loops]
        for c in {id(c.node): c for c in single + looped}.values():
            same = c.callee.key in addk
            if same:
                ctx.ob("window", k, c.node, "%s(...) in %s" % (c.callee.name, k.name), "a window is added by the kernel add() uses", True)
            elif own_stores:
                ctx.ob("window", k, c.node, "%s(...) in %s" % (c.callee.name, k.name), "a window is added by the kernel add() uses", None,
                       "%s updates the tables itself instead of calling %s: the per-window update is not recognised" % (k.name, sorted(x.split("::")[-1] for x in addk)))
            else:
                ctx.ob("window", k, c.node, "%s(...) in %s" % (c.callee.name, k.name), "a window is added by the kernel add() uses", False,
                       "the windows are passed to %s, which is not the kernel add() calls (%s): they are not added" % (c.callee.name, sorted(x.split("::")[-1] for x in addk)))
        wl = {id(c.loops[0]): c.loops[0] for c in looped}
        for lp in wl.values():
            mb = _monotone_break_bound(w, k, lp)
            exits = [e for e in w.events if e.kind in ("ret", "loopbreak") and getattr(e, "loops", None) and e.loops[0] is lp
                     and not (e.kind == "loopbreak" and len(e.loops) > 1 and getattr(e, "loop", None) is not lp)
                     and not (mb is not None and e.kind == "loopbreak" and e.path and id(e.path[-1][0]) in mb[1])]      # a bound written as a break: counted in the range
            okk = not exits
            node = exits[0].node if exits and getattr(exits[0], "node", None) is not None else k.node
            ctx.ob("window", k, node, "%s: exits inside the window loop" % k.name, "the window loop runs to the last window (no return/break inside it)", okk,
                   "" if okk else "`%s` leaves the window loop: the windows after that one are never added" % src(k, node, 50))
        # exactly these two shapes: every normal exit saw either one whole-key call and no window loop, or one window loop
        # (one add per iteration) and no other add
        res = []
        for r in [e for e in w.events if e.kind == "ret"]:
            pre = on_path(w.events, r)
            s_here = [c for c in pre if c in single]
            l_here = [x for x in pre if x.kind == "loopstart" and any(c.loops[0] is x.loop for c in looped)]
            okk = (len(s_here) == 1 and not l_here) or (not s_here and len(l_here) == 1)
            res.append((okk, "one whole-key add or one window loop" if okk else
                        "%d whole-key add(s) and %d window loop(s) on one path" % (len(s_here), len(l_here)), fact_strs(r)))
        for le in [x for x in w.events if x.kind == "loopend" and any(c.loops[-1] is x.loop for c in looped)]:
            inbody = [c for c in on_path(w.events, le) if c in looped and c.loops[-1] is le.loop]
            res.append((len(inbody) == 1, "one add per window" if len(inbody) == 1 else "%d adds in one iteration" % len(inbody), fact_strs(le)))
        agg(ctx, "window", k, k.node, "%s: add call sites" % k.name, "one whole-key call or one window loop with one add per window, nothing else",
            res if ((single and looped) or unified) else [(False, "whole-key call or window loop missing", [])])
        # state threaded unchanged: every other argument is the kernel's own same-named parameter
        res = []
        for c in calls:
            bad = []
            for p, a in zip(c.callee.params, c.args):
                if isinstance(a, Bytes) or p in ("value",):
                    continue
                if p == "rand_ptr":
                    continue       # threaded linearly: rule randtoken (C06)
                if isinstance(a, Arr):
                    if a.name != p:
                        bad.append(p)
                elif isinstance(a, Num):
                    if a.lin != Lin.term(("param", p)) and not (p in w.consts and a.lin == Lin.const(w.consts[p])):
                        bad.append(p)
                else:
                    bad.append(p)
            res.append((not bad, "sketch state forwarded unchanged" if not bad else "argument(s) %s are not the kernel's own parameters" % bad, fact_strs(c)))
        agg(ctx, "window", k, k.node, "%s: forwarded state" % k.name, "each window is added to the same sketch with the same parameters", res)


def rule_value_fwd(ctx, classes=SKETCH_CLASSES):
    """add(key, value): key and (capped) value reach the kernel's key/value parameters; HLL ignores value.
    add_ngram(key, n): the whole key and n itself reach the n-gram kernel."""
    F = facts_of(ctx)
    for cls in F.classes(classes):
        ma = cls.methods.get("add")
        if ma is not None and "value" in ma.params and cls.module.short != "hyperloglog":
            # add(key) adds the key once: the multiplicity defaults to 1 (update(list) relies on it)
            a_ = ma.node.args
            pos = [x.arg for x in a_.posonlyargs + a_.args]
            defaults = dict(zip(pos[len(pos) - len(a_.defaults):], a_.defaults)) if a_.defaults else {}
            dv = defaults.get("value")
            okk = isinstance(dv, ast.Constant) and dv.value == 1 and not isinstance(dv.value, bool)
            ctx.ob("value-fwd", ma, dv or ma.node, "%s(key, value=%s)" % (ma.qualname, unparse(dv) if dv is not None else "<required>"),
                   "a bare add(key) counts the key once (default multiplicity 1)", bool(okk),
                   "" if okk else "the default multiplicity is not 1")
        mn = cls.methods.get("add_ngram")
        if mn is not None:
            wn = F.walk(mn)
            for c in [e for e in wn.events if e.kind == "call" and e.callee is not None and e.callee.is_kernel]:
                am = dict(zip(c.callee.params, c.args))
                kv = next((a for a in c.args if isinstance(a, Bytes)), None)
                okk = isinstance(kv, Bytes) and kv.root == "key" and kv.start == Lin.const(0) and kv.stop is None
                ctx.ob("value-fwd", mn, c.node, "%s(key=key)" % c.callee.name, "the whole key is passed to the n-gram kernel", okk)
                nv = am.get("ngram")
                okk = isinstance(nv, Num) and nv.lin == Lin.term(("param", "ngram"))
                ctx.ob("value-fwd", mn, c.node, "%s(ngram=%s)" % (c.callee.name, show_lin(nv.lin) if isinstance(nv, Num) else nv),
                       "the n-gram size reaches the kernel unchanged", okk)
    for cls in F.classes(classes):
        m = cls.methods.get("add")
        if m is None:
            continue
        w = F.walk(m)
        calls = [e for e in w.events if e.kind == "call" and e.callee is not None and e.callee.is_kernel]
        rets = [e for e in w.events if e.kind == "ret"]
        res = []
        for r in rets:
            cs = [c for c in on_path(w.events, r) if c in calls]
            if not cs and "value" in m.params and w.P.prove_le0(Lin.term(("param", "value")), r.facts):
                res.append((True, "nothing to add (value <= 0)", fact_strs(r)))
                continue
            res.append((len(cs) == 1, "one kernel call per add" if len(cs) == 1 else "%d kernel calls on a path" % len(cs), fact_strs(r)))
        if not calls and any(e.kind == "call" and e.callee is None and isinstance(e.node, ast.Call) and isinstance(e.node.func, ast.Attribute)
                             and isinstance(e.node.func.value, ast.Name) and e.node.func.value.id not in ("self", "np", "numpy") for e in w.events):
            ctx.ob("value-fwd", m, m.node, "%s calls its kernel once" % m.qualname, "add() performs exactly one kernel add", None,
                   "add() calls something the analysis cannot resolve to a kernel")
            continue
        agg(ctx, "value-fwd", m, calls[0].node if calls else m.node, "%s calls its kernel once" % m.qualname, "add() performs exactly one kernel add", res)
        for c in calls:
            am = dict(zip(c.callee.params, c.args))
            kv = next((a for a in c.args if isinstance(a, Bytes)), None)
            okk = isinstance(kv, Bytes) and kv.root == "key" and kv.start == Lin.const(0) and kv.stop is None
            ctx.ob("value-fwd", m, c.node, "%s(key=key)" % c.callee.name, "the whole key is passed", okk)
            if cls.module.short == "hyperloglog":
                dep = any(isinstance(a, Num) and ("param", "value") in a.lin.terms() for a in c.args)
                ctx.ob("ignore-mult", m, c.node, "%s ignores value" % m.qualname, "HyperLogLog ignores the multiplicity", not dep)
            else:
                vv = am.get("value")
                okk = isinstance(vv, Num) and (("param", "value") in vv.lin.terms() or any(t[0] == "min" and "value" in repr(t) for t in vv.lin.terms()))
                # exact or min(value, ceiling)
                exact = isinstance(vv, Num) and vv.lin == Lin.term(("param", "value"))
                capped = False
                if isinstance(vv, Num) and not exact:
                    t = vv.lin.single_term()
                    if t is not None and t[0] == "min":
                        kind, a, b = w.P.minmax[t]
                        capped = Lin.term(("param", "value")) in (a, b)
                if isinstance(vv, Num) and not (exact or capped):
                    # semantic form: vv == min(value, ceiling)
                    from .rules_arith import FactBox
                    ceil_t = Lin.term(w.named(("attr", "self", "uint_maxval")))
                    val_t = Lin.term(("param", "value"))
                    box = FactBox(c.facts)
                    g = w.minmax("min", val_t, ceil_t, box)
                    capped = bool(w.P.prove_le0(vv.lin - g, box.facts) and w.P.prove_le0(g - vv.lin, box.facts))
                ctx.ob("value-fwd", m, c.node, "%s(value=%s)" % (c.callee.name, show_lin(vv.lin) if isinstance(vv, Num) else vv),
                       "the multiplicity (or its cap at the ceiling) reaches the kernel", exact or capped)


# ---------------------------------------------------------------------------
# wrapper discipline: state-owner, wrapper-once
# ---------------------------------------------------------------------------

TABLE_ATTRS = {"cms", "n_added_records", "registers", "lhh", "lhh_count", "key_lens", "buckets", "rand_nums"}
TABLE_WRITERS = {"__init__", "attach_existing_shm"}


def rule_state_owner(ctx, classes=SKETCH_CLASSES, methods=None):
    """The arrays holding a sketch's state are (re)bound only by the constructor and the attacher; every other method
    changes them through its kernel.  Rebinding elsewhere aliases or replaces state behind the kernels' back.
    `methods` restricts the rule to the methods a property is about (None = every method and the module-level functions)."""
    F = facts_of(ctx)
    seen = set()
    for cls in F.classes(classes):
        for mname, meth in cls.methods.items():
            if meth.key in seen:
                continue
            if methods is not None and mname not in methods:
                continue
            seen.add(meth.key)
            sites = []
            for n in walk_no_nested(meth.node):
                tgts = []
                if isinstance(n, ast.Assign):
                    tgts = n.targets
                elif isinstance(n, (ast.AugAssign, ast.AnnAssign)):
                    tgts = [n.target]
                for t in tgts:
                    for e in (t.elts if isinstance(t, (ast.Tuple, ast.List)) else [t]):
                        for obj in ("self", "other"):
                            a = self_attr(e, obj)
                            if a in TABLE_ATTRS:
                                if isinstance(n, ast.AugAssign) and obj == "self" and a == "n_added_records":
                                    # `self.n_added_records += ...` on a NumPy array adds in place (the name is re-bound to the same
                                    # object): a write, not a rebinding; that the bookkeeping counters are summed exactly once is
                                    # rule sumcounters'
                                    continue
                                sites.append((n, obj, a))
                if isinstance(n, ast.Call) and dotted(n.func) == "setattr" and n.args and isinstance(n.args[0], ast.Name) and n.args[0].id in ("self", "other"):
                    sites.append((n, n.args[0].id, unparse(n.args[1]) if len(n.args) > 1 else "?"))
            inlined = getattr(meth.module.tree, "_inlined_helpers", set())
            if mname in TABLE_WRITERS:
                bad = [s for s in sites if s[1] != "self"]
            elif mname in inlined and mname.startswith("_") and not mname.startswith("__"):
                # a private helper whose body was inlined at every call site the analysis follows: the rebinding is judged
                # there, under the name of the method that calls it (a constructor may, merge() may not)
                callers = [m2 for m2 in cls.methods.values() if m2 is not meth and any(
                    isinstance(n, ast.Call) and isinstance(n.func, ast.Attribute) and n.func.attr == mname for n in walk_no_nested(m2.node))]
                bad = sites if callers else []
            else:
                bad = sites
            ctx.ob("state-owner", meth, bad[0][0] if bad else meth.node, "%s rebinds %s" % (meth.qualname, sorted({"%s.%s" % (o, a) for _, o, a in sites}) or "nothing"),
                   "state arrays are bound only in __init__/attach_existing_shm; other methods go through their kernel", not bad,
                   "" if not bad else "`%s` rebinds %s.%s: the sketch's state is replaced or aliased outside the kernels" % (unparse(bad[0][0], 70), bad[0][1], bad[0][2]))
    # module-level functions must not rebind them either (load copies into the arrays)
    for f in F.model.all_funcs():
        if f.cls is not None or f.is_kernel:
            continue
        if methods is not None and f.name not in methods:
            continue
        bad = []
        for n in walk_no_nested(f.node):
            if isinstance(n, ast.Assign):
                for t in n.targets:
                    if isinstance(t, ast.Attribute) and t.attr in TABLE_ATTRS - {"buckets", "rand_nums"}:
                        bad.append(n)
        if bad:
            ctx.ob("state-owner", f, bad[0], "%s rebinds %s" % (f.name, unparse(bad[0].targets[0])), "state arrays are bound only by the constructor/attacher", False)
    # loaders (static methods) copy, never rebind
    for cls in F.classes(classes):
        ld = cls.methods.get("load")
        if ld is None or (methods is not None and "load" not in methods):
            continue
        bad = [n for n in walk_no_nested(ld.node) if isinstance(n, ast.Assign) and any(isinstance(t, ast.Attribute) and t.attr in TABLE_ATTRS for t in n.targets)]
        ctx.ob("state-owner", ld, bad[0] if bad else ld.node, "%s copies into the arrays" % ld.qualname,
               "load() fills the constructed arrays with np.copyto (keeps shared-memory placement and dtype)", not bad,
               "" if not bad else "`%s` rebinds the array instead of copying into it" % unparse(bad[0], 60))


WRAPPED = ("add", "add_ngram", "merge", "query", "__getitem__")


def rule_wrapper_once(ctx, classes=SKETCH_CLASSES, methods=WRAPPED):
    """Every non-raising path through a wrapper executes each of its kernel call sites exactly once, in every case
    (no fast path that answers or updates without the kernel), and a query returns the kernel's value."""
    F = facts_of(ctx)
    for cls in F.classes(classes):
        for mname in methods:
            meth = cls.methods.get(mname)
            if meth is None:
                continue
            ksites = [k for k in F.calls_from(meth) if k.callee.is_kernel]
            if not ksites:
                continue           # pure delegation (e.g. __getitem__ -> self.query): rule deleg
            w = F.walk(meth)
            rets = [e for e in w.events if e.kind == "ret"]
            res = []
            for r in rets:
                pre = on_path(w.events, r)
                bad = None
                for k in ksites:
                    n = len([c for c in pre if c.kind == "call" and c.node is k.node])
                    if n == 0 and mname == "add" and "value" in meth.params and w.P.prove_le0(Lin.term(("param", "value")), r.facts):
                        continue      # adding a key zero times: nothing to do
                    if n != 1:
                        bad = "%s is called %d times on a path that returns normally" % (k.callee.name, n)
                res.append((bad is None, "each kernel call site executed once" if bad is None else bad, fact_strs(r)))
            agg(ctx, "wrapper-once", meth, ksites[0].node, "%s -> %s" % (meth.qualname, "+".join(k.callee.name for k in ksites)),
                "every normal path through the wrapper performs its kernel call(s) exactly once", res)
            # no state is touched directly: subscript stores on self/other arrays
            direct = [n for n in walk_no_nested(meth.node) if isinstance(n, (ast.Assign, ast.AugAssign))
                      for t in (n.targets if isinstance(n, ast.Assign) else [n.target])
                      if isinstance(t, ast.Subscript) and (self_attr(t.value) in TABLE_ATTRS or self_attr(t.value, "other") in TABLE_ATTRS)]
            ctx.ob("wrapper-once", meth, direct[0] if direct else meth.node, "%s writes no array element itself" % meth.qualname,
                   "the wrapper changes the tables only through its kernel", not direct)
            if mname in ("query", "__getitem__"):
                res = []
                for r in [x for x in rets if not x.implicit]:
                    pre = [c for c in on_path(w.events, r) if c.kind == "call" and c.callee is not None and c.callee.is_kernel]
                    okk = bool(pre) and isinstance(r.value, Num) and isinstance(pre[-1].result, Num) and r.value.lin == pre[-1].result.lin
                    res.append((okk, "returns the kernel's value" if okk else "the value returned is not the kernel's result (cached or recomputed elsewhere)", fact_strs(r)))
                if any(x.implicit for x in rets):
                    res.append((False, "a path returns None"))
                agg(ctx, "wrapper-once", meth, ksites[-1].node, "%s returns %s(...)" % (meth.qualname, ksites[-1].callee.name),
                    "a query answers with the kernel's value on every path", res)


# ---------------------------------------------------------------------------
# reload-valid: the constructor accepts every parameter value its own save() can store
# ---------------------------------------------------------------------------

def _subst_cond(c, term, repl):
    k = c[0]
    if k in ("le", "flt", "eq", "ne"):
        return (k, c[1].subst(term, repl)) + tuple(c[2:])
    if k in ("and", "or"):
        return (k, [_subst_cond(x, term, repl) for x in c[1]])
    if k == "not":
        return ("not", _subst_cond(c[1], term, repl))
    return c


def _drop_atoms(c, value):
    """Replace opaque atoms (isinstance checks ...) by a constant truth value."""
    k = c[0]
    if k == "atom":
        return ("true",) if value else ("false",)
    if k == "not" and c[1][0] == "atom":
        return ("true",) if value else ("false",)
    if k in ("and", "or"):
        return (k, [_drop_atoms(x, value) for x in c[1]])
    return c


def rule_reload_valid(ctx, classes=SKETCH_CLASSES):
    F = facts_of(ctx)
    for cls in F.classes(classes):
        ctor = F.ctor(cls)
        if ctor.cls is not cls:
            continue
        w = F.walk(ctor)
        cparams = [p for p in ctor.params if p not in ("self", "shared_memory")]
        # validation: branch conditions under which the constructor raises
        raise_conds = []
        for r in [e for e in w.events if e.kind == "raise"]:
            if r.path:
                raise_conds.append((r.path[-1][2], r))
        stores = [e for e in w.events if e.kind == "attrstore" and e.target.startswith("self.") and e.target[5:] in cparams]
        for g in group_by_node(stores):
            e0 = g[0]
            P = e0.target[5:]
            pterm = ("param", P)
            res = []
            for e in g:
                V = e.value
                if not isinstance(V, Num):
                    res.append((None, "stored value not understood"))
                    continue
                if V.lin == Lin.term(pterm):
                    res.append((True, "the attribute is the (validated) parameter itself", fact_strs(e)))
                    continue
                bad = None
                for c, r in raise_conds:
                    if pterm not in set(_cond_terms(c)):
                        # the check may still depend on the parameter through a non-linear term (phi * width < 1.0): such a check
                        # is evaluated in floating point for the stored default over an enumerated range of the other parameters
                        if pterm in _deep_terms(w, c):
                            wit = _enumerate_guard(w, c, pterm, V.lin, cparams)
                            if wit is not None:
                                bad = "the value of `%s` that save() stores (%s) is rejected by the constructor's own check `%s` when load() feeds it back, e.g. for %s" % (
                                    P, show_lin(V.lin), unparse(r.path[-1][0].test, 70), wit)
                                break
                        continue
                    c2 = _drop_atoms(_subst_cond(c, pterm, V.lin), True)
                    st = w.refine(e, [c2])
                    if not st.dead:
                        bad = "a value of `%s` that save() stores (%s) is rejected by the constructor's own check `%s` when load() feeds it back" % (
                            P, show_lin(V.lin), unparse(r.path[-1][0].test, 70))
                        break
                res.append((bad is None, "every stored value passes the constructor's validation" if bad is None else bad, fact_strs(e)))
            agg(ctx, "reload-valid", ctor, e0.node, "%s: %s" % (cls.name, src(ctor, e0.node, 70)),
                "load(save(x)) can reconstruct x: the saved parameter value satisfies the constructor's validation", res)


def _deep_terms(w, c):
    """All terms a condition depends on, looking inside op / min / max terms."""
    out = set()
    todo = list(_cond_terms(c))
    while todo:
        t = todo.pop()
        if t in out:
            continue
        out.add(t)
        if isinstance(t, tuple) and t and t[0] == "op" and t in w.P.ops:
            a, b = w.P.ops[t]
            todo.extend(a.terms())
            todo.extend(b.terms())
        elif isinstance(t, tuple) and t and t[0] in ("min", "max") and t in w.P.minmax:
            _, a, b = w.P.minmax[t]
            todo.extend(a.terms())
            todo.extend(b.terms())
    return out


def _eval_lin(w, lin, env):
    """Floating-point value of a walker linear form under env (term -> number); raises KeyError if a term is not evaluable."""
    v = float(lin.k) if isinstance(lin.k, float) else lin.k
    for t, c in lin.c.items():
        v = v + c * _eval_term(w, t, env)
    return v


def _eval_term(w, t, env):
    if t in env:
        return env[t]
    if isinstance(t, tuple) and t and t[0] == "op" and t in w.P.ops:
        a, b = (_eval_lin(w, x, env) for x in w.P.ops[t])
        op = t[1]
        if op == "Mult":
            return a * b
        if op == "Div":
            return a / b
        if op == "FloorDiv":
            return a // b
        if op == "Mod":
            return a % b
        if op == "Pow":
            return a ** b
        raise KeyError(t)
    if isinstance(t, tuple) and t and t[0] in ("min", "max") and t in w.P.minmax:
        kind, a, b = w.P.minmax[t]
        va, vb = _eval_lin(w, a, env), _eval_lin(w, b, env)
        return min(va, vb) if kind == "min" else max(va, vb)
    raise KeyError(t)


def _eval_cond(w, c, env):
    k = c[0]
    if k == "le":
        return _eval_lin(w, c[1], env) <= 0
    if k == "flt":
        return _eval_lin(w, c[1], env) < 0
    if k == "eq":
        return _eval_lin(w, c[1], env) == 0
    if k == "ne":
        return _eval_lin(w, c[1], env) != 0
    if k == "and":
        return all(_eval_cond(w, x, env) for x in c[1])
    if k == "or":
        return any(_eval_cond(w, x, env) for x in c[1])
    if k == "not":
        return not _eval_cond(w, c[1], env)
    if k == "atom":
        return True           # type tests (isinstance(phi, float)) hold for the value load() feeds back
    if k == "true":
        return True
    if k == "false":
        return False
    raise KeyError(c)


def _enumerate_guard(w, c, pterm, vlin, cparams, limit=4096):
    """Does the raising condition `c` hold when parameter `pterm` takes the stored default `vlin` (an expression of the other
    parameters)?  The other integer parameters it mentions are enumerated over 1..limit (IEEE doubles, as the program computes);
    returns a witness string or None."""
    others = sorted({t for t in (_deep_terms(w, c) | set(vlin.terms())) if isinstance(t, tuple) and t and t[0] in ("param", "attr") and t != pterm}, key=repr)
    if len(others) != 1:
        return None
    o = others[0]
    for n in range(1, limit + 1):
        env = {o: n}
        try:
            env[pterm] = _eval_lin(w, vlin, env)
            if _eval_cond(w, c, env):
                return "%s = %d" % (o[-1], n)
        except (KeyError, ZeroDivisionError, OverflowError, TypeError):
            return None
    return None


def _cond_terms(c):
    if c[0] in ("le", "flt", "eq", "ne"):
        return list(c[1].terms())
    if c[0] in ("and", "or"):
        out = []
        for x in c[1]:
            out.extend(_cond_terms(x))
        return out
    if c[0] == "not":
        return _cond_terms(c[1])
    return []


def rule_observers(ctx, classes=SKETCH_CLASSES):
    """n_added() / n_records() return slot 0 / slot 1 of the bookkeeping array."""
    F = facts_of(ctx)
    seen = set()
    for cls in F.classes(classes):
        for name, slot in (("n_added", 0), ("n_records", 1)):
            m = cls.resolve(name)
            if m is None:
                if cls.module.short != "hyperloglog":
                    ctx.ob("observers", (cls.module.relpath, cls.name), cls.node, "%s.%s" % (cls.name, name), "bookkeeping observer exists", False)
                continue
            if m.key in seen:
                continue
            seen.add(m.key)
            rets = [n for n in walk_no_nested(m.node) if isinstance(n, ast.Return)]
            okk = len(rets) == 1 and isinstance(rets[0].value, ast.Subscript) and self_attr(rets[0].value.value) == "n_added_records" \
                and const_int(rets[0].value.slice) == slot
            ctx.ob("observers", m, rets[0] if rets else m.node, "%s returns n_added_records[%d]" % (m.qualname, slot),
                   "%s() reads bookkeeping slot %d" % (name, slot), okk)


# ---------------------------------------------------------------------------
# C20 writer side: the archive is produced by one np.savez call and never touched again
# ---------------------------------------------------------------------------

PURE_PATH_CALLS = {"Path", "pathlib.Path", "str", "os.fspath", "os.path.abspath", "os.path.join", "os.path.expanduser", "repr", "len", "type", "isinstance"}
PURE_PATH_METHODS = {"with_name", "with_suffix", "resolve", "absolute", "expanduser", "endswith", "startswith", "as_posix", "joinpath"}
FILE_MUTATORS = ("zipfile.ZipFile", "ZipFile", "open", "io.open", "os.rename", "os.replace", "os.truncate", "shutil.", "np.save", "numpy.save",
                 "os.remove", "os.unlink", "tempfile.")


def rule_writer_api(ctx, classes=SKETCH_CLASSES):
    F = facts_of(ctx)
    seen = set()
    for cls in F.classes(classes):
        save = cls.resolve("save")
        if save is None or save.key in seen:
            continue
        seen.add(save.key)
        if len(save.params) < 2:
            ctx.ob("writer-api", save, save.node, save.qualname, "save(filename) readable", None)
            continue
        taint = {save.params[1]}
        changed = True
        while changed:
            changed = False
            for n in walk_no_nested(save.node):
                tg = None
                if isinstance(n, ast.Assign):
                    tg, val = n.targets, n.value
                elif isinstance(n, ast.With):
                    for it in n.items:
                        if it.optional_vars is not None and {x.id for x in ast.walk(it.context_expr) if isinstance(x, ast.Name)} & taint:
                            for x in ast.walk(it.optional_vars):
                                if isinstance(x, ast.Name) and x.id not in taint:
                                    taint.add(x.id)
                                    changed = True
                    continue
                if tg and {x.id for x in ast.walk(val) if isinstance(x, ast.Name)} & taint:
                    for t in tg:
                        for x in ast.walk(t):
                            if isinstance(x, ast.Name) and x.id not in taint:
                                taint.add(x.id)
                                changed = True
        writes = []
        others = []
        for n in walk_no_nested(save.node):
            if not isinstance(n, ast.Call):
                continue
            d = dotted(n.func) or ""
            argn = {x.id for a in list(n.args) + [k.value for k in n.keywords] for x in ast.walk(a) if isinstance(x, ast.Name)}
            recv = {x.id for x in ast.walk(n.func) if isinstance(x, ast.Name)} if isinstance(n.func, ast.Attribute) else set()
            if not ((argn | recv) & taint):
                continue
            if d in ("np.savez", "numpy.savez", "np.savez_compressed", "numpy.savez_compressed"):
                writes.append(n)
            elif d in PURE_PATH_CALLS or (isinstance(n.func, ast.Attribute) and n.func.attr in PURE_PATH_METHODS):
                continue
            elif d == "print" or d.startswith(("logging.", "warnings.")) or (isinstance(n.func, ast.Attribute) and isinstance(n.func.value, ast.Name)
                                                                             and n.func.value.id in ("logger", "log", "_logger", "_log", "LOGGER", "LOG")
                                                                             and n.func.attr in ("debug", "info", "warning", "error", "exception", "critical", "log")):
                continue          # the name is only printed / logged
            else:
                others.append((n, d))
        okk = len(writes) == 1 and writes[0].args and {x.id for x in ast.walk(writes[0].args[0]) if isinstance(x, ast.Name)} & taint
        ctx.ob("writer-api", save, writes[0] if writes else save.node, "%s: np.savez(filename, ...)" % save.qualname,
               "the sketch file is written by exactly one np.savez call (zip container whose end record is written last)", bool(okk),
               "" if okk else "%d np.savez calls on the file" % len(writes))
        for n, d in others:
            mut = any(d == m or d.startswith(m) for m in FILE_MUTATORS) or (isinstance(n.func, ast.Attribute) and n.func.attr in ("open", "write_bytes", "write_text", "writestr", "write", "touch", "rename", "replace", "unlink"))
            ctx.ob("writer-api", save, n, "%s: %s" % (save.qualname, unparse(n, 60)),
                   "nothing else opens or modifies the file save() wrote (anything appended after the zip end record makes a truncated copy loadable)",
                   False if mut else None,
                   ("`%s` re-opens/modifies the archive after np.savez" % d) if mut else "unknown use of the file name: %s" % d)


# ---------------------------------------------------------------------------
# args-private: behaviour may depend only on state that save()/load() reproduce
# ---------------------------------------------------------------------------

NOT_REPRODUCED = {"args": "the constructor-argument record: a reloaded sketch is rebuilt from normalised values (phi=None becomes 1/width, "
                          "num_reserved=None becomes the default), so `self.args` differs between a sketch and its reloaded copy",
                  "shm": "placement", "existing_shm": "placement"}
MAY_READ_UNREPRODUCED = {"__init__", "__del__", "attach_existing_shm"}


def rule_args_private(ctx, classes=SKETCH_CLASSES):
    F = facts_of(ctx)
    seen = set()
    entry = ("query", "add", "update", "add_ngram", "update_ngram", "merge", "generate_candidate_set", "__getitem__", "save", "load",
             "n_added", "n_records")
    for cls in F.classes(classes):
        # the observable API and everything it reaches through self.<method>() calls
        reach, todo = set(), [m for m in entry if cls.resolve(m) is not None]
        while todo:
            mn = todo.pop()
            if mn in reach:
                continue
            reach.add(mn)
            mm = cls.resolve(mn)
            for n in walk_no_nested(mm.node):
                if isinstance(n, ast.Call) and isinstance(n.func, ast.Attribute) and isinstance(n.func.value, ast.Name) and n.func.value.id == "self" \
                        and cls.resolve(n.func.attr) is not None:
                    todo.append(n.func.attr)
        for mname in sorted(reach):
            meth = cls.resolve(mname)
            if meth.key in seen or mname in MAY_READ_UNREPRODUCED:
                continue
            seen.add(meth.key)
            reads = [n for n in walk_no_nested(meth.node) if isinstance(n, ast.Attribute) and isinstance(n.ctx, ast.Load)
                     and isinstance(n.value, ast.Name) and n.value.id == "self" and n.attr in ("args",)]
            ctx.ob("args-private", meth, reads[0] if reads else meth.node, "%s reads self.args: %s" % (meth.qualname, "yes" if reads else "no"),
                   "no method's behaviour depends on `self.args` (it is not reproduced by load(): original and reloaded copy would behave differently)",
                   not reads, "" if not reads else "`%s` makes the sketch's behaviour depend on how it was constructed rather than on its saved state" % unparse(reads[0].ctx and reads[0], 40))
