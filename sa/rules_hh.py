"""Heavy-hitter rules: keyid, bm-table (+paired), keynorm, keylen-inv, ctor-range, hh-addr, maxcount, report,
scan-all, cachekey, mutators, filter, same-kernel, topk  (C03, C04, C13)."""
from __future__ import annotations

import ast

from .facts import const_int, facts_of
from .flow import Arr, ArrSlice, Bool, Bytes, Num, Opaque, Tup, c_not, cond_atoms, conjuncts, show_cond
from .lin import Lin, show_lin
from .model import AnalysisError, call_name, dotted, self_attr, unparse, walk_no_nested
from .model import comes_before, is_inside
from .rules_arith import (FactBox, agg, fact_strs, group_by_node, hash_site, on_path, seed_is_row, src,
                          table_params, walk_kernel)

HH = ("heavyhitters", "HeavyHitters")


def hh_kernels(F):
    """name -> kernel, resolved through the HeavyHitters methods."""
    cls = F.model.cls(*HH)
    out = {}
    for role, meth in (("add", "add"), ("merge", "merge"), ("max", "__getitem__")):
        m = cls.methods.get(meth)
        if m is None:
            raise AnalysisError("HeavyHitters.%s not found" % meth)
        ks = [k.callee for k in F.calls_from(m) if k.callee.is_kernel]
        if len(ks) != 1:
            raise AnalysisError("HeavyHitters.%s calls %d kernels (expected 1)" % (meth, len(ks)))
        out[role] = ks[0]
    return out


def max_key_len_facts(F, k):
    """Object invariant 1 <= max_key_len <= 255 (established by rule `ctor-range`) as an entry fact of HH kernels."""
    mk = F.param_for(k, "max_key_len")

    def pf(w, st):
        if mk and isinstance(st.env.get(mk), Num):
            t = st.env[mk].lin
            st.facts.append(t - 255)
            st.facts.append(Lin.const(1) - t)
    return pf


_WALKS = {}


def hh_walk(ctx, k, pre=None, tag=""):
    """Cached walk of an HH kernel with the object invariants as entry facts."""
    F = facts_of(ctx)
    from .flow import Walker
    from .rules_arith import SUMMARIES, keylen_axioms
    key = ("hhwalk", k.key, tag)

    def mk():
        base = max_key_len_facts(F, k)

        def pf(w, st):
            base(w, st)
            if pre:
                pre(w, st)
        w = Walker(F.model, k, consts=F.consts_for(k), effects=F.effects, summaries=SUMMARIES,
                   cell_axioms=keylen_axioms(F, k), param_facts=pf, no_inline=frozenset(F.units()))
        w.run()
        ctx.analysed_funcs.add(k.key)
        return w
    return ctx.shared(key, mk)


# ---------------------------------------------------------------------------
# ctor-range: the constructor accepts max_key_len only in [1, 255]
# ---------------------------------------------------------------------------

def rule_ctor_range(ctx):
    F = facts_of(ctx)
    cls = ctx.model.cls(*HH)
    ctor = F.ctor(cls)
    w = F.walk(ctor)
    sts = [e for e in w.events if e.kind == "attrstore" and e.target == "self.max_key_len"]
    res = []
    for e in sts:
        p = Lin.term(("param", "max_key_len"))
        p1 = w.P.prove_le0(p - 255, e.facts)
        p2 = w.P.prove_le0(Lin.const(1) - p, e.facts)
        res.append((bool(p1 and p2), "validated before the attribute is set" if p1 and p2 else
                    "max_key_len is not validated to lie in [1, 255] before it is stored", fact_strs(e)))
    agg(ctx, "ctor-range", ctor, sts[0].node if sts else ctor.node, "self.max_key_len = ...",
        "1 <= max_key_len <= 255 whenever a HeavyHitters object exists (key lengths fit the uint8 length table)", res)


# ---------------------------------------------------------------------------
# keyid
# ---------------------------------------------------------------------------

def _key_atoms(F, k, w):
    """[(branch_event, atom_cond, match_cond)] for every `np.all(<stored key cell> == probe)` decision."""
    pa = F.param_attr().get(k.key, {})
    keytabs = {p for p, s in pa.items() if s & {"lhh", "other.lhh"}}
    out = []
    seen_nodes = set()
    for b in w.events:
        if b.kind != "branch":
            continue
        for at, pol in cond_atoms(b.cond):
            if not (isinstance(at[1], tuple) and at[1] and at[1][0] == "all_eq"):
                continue
            info = at[2] or {}
            ops = [info.get("a"), info.get("b")]
            cells = [o for o in ops if isinstance(o, ArrSlice) and o.arr.name in keytabs and len(o.index_nums()) == 2]
            if not cells:
                continue
            out.append((b, at, pol, cells, ops))
            seen_nodes.add(id(info.get("node")))
    # every syntactic np.all(...) over a key table must have been seen in some decision
    missing = []
    for n in walk_no_nested(k.node):
        if isinstance(n, ast.Call) and dotted(n.func) in ("np.all", "numpy.all") and n.args:
            names = {x.id for x in ast.walk(n.args[0]) if isinstance(x, ast.Name)}
            if names & keytabs and id(n) not in seen_nodes:
                missing.append(n)
    return out, missing, keytabs


def _disjuncts(c):
    if c[0] == "or":
        out = []
        for x in c[1]:
            out.extend(_disjuncts(x))
        return out
    if c[0] == "and":
        return [c]
    return [c]


def match_cond_of(b, at):
    """Orientation: the condition (b.cond or its negation) in which the key atom is a positive top-level conjunct."""
    for c in (b.cond, c_not(b.cond)):
        for x in conjuncts(c):
            if x[0] == "atom" and x[1] == at[1]:
                return c, (c is b.cond)
    return None, None


def rule_keyid(ctx):
    F = facts_of(ctx)
    ks = hh_kernels(F)
    n = 0
    for role in ("add", "merge", "max"):
        k = ks[role]
        w = hh_walk(ctx, k)
        atoms, missing, keytabs = _key_atoms(F, k, w)
        pa = F.param_attr().get(k.key, {})
        lentabs = {p: s for p, s in pa.items() if s & {"key_lens", "other.key_lens"}}
        for mnode in missing:
            arg0 = mnode.args[0] if mnode.args else None
            if isinstance(arg0, ast.Compare) and len(arg0.ops) == 1 and not isinstance(arg0.ops[0], ast.Eq):
                ctx.ob("keyid", k, mnode, src(k, mnode), "a stored key is recognised by byte-wise equality with the probe", False,
                       "the bytes are compared with `%s`, not `==`: equal keys are not recognised as equal" % type(arg0.ops[0]).__name__)
                continue
            ctx.ob("keyid", k, mnode, src(k, mnode), "stored-key comparison feeds a decision the analysis can read", None,
                   "np.all(...) over a key table is not used directly in an if/boolean decision")
        done = set()
        ACTIONS = ("store", "slicestore", "assign", "ret", "attrstore", "otherstore")
        for b, at, pol, cells, ops in atoms:
            if id(b.node) in done:
                continue
            done.add(id(b.node))
            n += 1
            cons = src(k, (at[2] or {}).get("node") or b.node, 90)
            goal = "key identity = bytes AND length: whatever is done on a byte match is done only when key_lens[row, col] also equals the probe's length"
            cell = cells[0]
            idxkey = tuple(i.lin.key() for i in cell.index_nums())
            probe = [o for o in ops if o is not cell]
            other_cell = probe[0] if probe and isinstance(probe[0], ArrSlice) and probe[0].arr.name in keytabs else None

            def length_eq(x):
                if x[0] != "eq":
                    return False
                lin = x[1]
                ts = [t for t in lin.terms() if t[0] == "cell" and t[1] in lentabs and t[3] == idxkey]
                if not ts:
                    return False
                if other_cell is not None:
                    # both stored lengths, one from each operand, same (row, col)
                    names = {t[1] for t in ts}
                    own = {p for p, s_ in lentabs.items() if "key_lens" in s_}
                    oth = {p for p, s_ in lentabs.items() if "other.key_lens" in s_}
                    return bool(names & own and names & oth and len(lin.terms()) == 2 and lin.k == 0)
                rest = [t for t in lin.terms() if t not in ts]
                return len(ts) == 1 and not any(t[0] == "cell" for t in rest)

            def positive(entry):
                return entry[0] is b.node and any(x[0] == "atom" and x[1] == at[1] for x in conjuncts(entry[2]))

            def mentions(entry):
                return entry[0] is b.node and any(a_[1] == at[1] for a_, _ in cond_atoms(entry[2]))

            def _decision_temp(e):
                # binding a local to the truth value of a comparison (a flag, or the normaliser's own temporary for a helper's result)
                # does nothing to the sketch: what is then done under that flag is what counts
                return e.kind == "assign" and (isinstance(getattr(e, "value", None), Bool) or str(getattr(e, "name", "")).startswith(("hk__", "hoisted__", "ret__")))
            acts = [e for e in w.events if e.kind in ACTIONS and not _decision_temp(e) and any(positive(en) for en in e.path)]
            # a decision in which the byte comparison is neither a conjunct nor a negated disjunct cannot be read
            unreadable = [e for e in w.events if e.kind in ACTIONS and any(mentions(en) and not positive(en)
                          and not any(x[0] == "not" and x[1][0] == "atom" and x[1][1] == at[1] for x in _disjuncts(en[2])) for en in e.path)]
            if unreadable and not acts:
                ctx.ob("keyid", k, b.node, cons, goal, None, "the key comparison is not a top-level conjunct of the decision or of its negation")
                continue
            res = []
            def length_decided(x):
                # the stored length was compared with the probe's on this path, either way: a byte match of unequal lengths that is
                # explicitly routed to the mismatch handling has consulted both parts of the identity (what each branch then does is bm-table's)
                if length_eq(x):
                    return True
                if x[0] == "ne":
                    return length_eq(("eq",) + tuple(x[1:]))
                if x[0] == "not":
                    return length_eq(x[1])
                return False
            for e in acts:
                found = next((x for en in e.path for x in conjuncts(en[2]) if length_decided(x)), None)
                res.append((found is not None, show_cond(found) if found else
                            "stored key bytes are compared without the stored length: keys differing only in length / trailing NULs are identified, "
                            "and an all-NUL key matches an empty cell", fact_strs(e)))
            agg(ctx, "keyid", k, b.node, cons, goal, res or [(True, "nothing is done on a byte match", [])])
    return n


# ---------------------------------------------------------------------------
# bm-table (+ paired)
# ---------------------------------------------------------------------------

def rule_bm_table(ctx):
    F = facts_of(ctx)
    ks = hh_kernels(F)
    for role in ("add", "merge"):
        k = ks[role]
        w = hh_walk(ctx, k)
        pa = F.param_attr().get(k.key, {})
        cnt = F.param_for(k, "lhh_count")
        keyt = F.param_for(k, "lhh")
        lent = F.param_for(k, "key_lens")
        if not (cnt and keyt and lent):
            ctx.ob("bm-table", k, k.node, k.name, "kernel receives lhh, lhh_count, key_lens", None)
            continue
        ceiling = k.ptypes[cnt].scalar.range()[1]
        from .rules_arith import no_early_exit
        no_early_exit(ctx, "bm-table", k, w, {cnt, keyt, lent}, "rows / cells")
        atoms, missing, keytabs = _key_atoms(F, k, w)
        if not atoms:
            ctx.ob("bm-table", k, k.node, k.name, "the cell update is keyed on a stored-key comparison", None, "no key comparison found")
            continue
        depthn = 1 if role == "add" else 2
        lends = [e for e in w.events if e.kind == "loopend" and len(e.loops) == depthn]
        cases = {"match": [], "replace": [], "decrement": []}
        bad_paths = []
        for le in lends:
            lp = le.loops[-1]
            evs = [x for x in on_path(w.events, le) if x.loops == le.loops]
            # polarity of the match on this path
            pol = None
            lent_names = {p_ for p_, s_ in pa.items() if s_ & {"key_lens", "other.key_lens"}}
            for (s_node, taken, cc) in le.path:
                for b, at, apol, cells, ops in atoms:
                    if b.node is s_node:
                        mc, positive = match_cond_of(b, at)
                        if mc is not None:
                            pol = (taken == positive)
                            # the stored length may be compared in a decision of its own (a helper that returns early on a byte
                            # mismatch): a byte match whose length test failed on this path is a mismatch
                            if pol and not any(x[0] == "eq" and any(t[0] == "cell" and t[1] in lent_names for t in x[1].terms()) for x in conjuncts(mc)):
                                for (_n2, _t2, c2) in le.path:
                                    for x in conjuncts(c2):
                                        y, neg = x, False
                                        if y[0] == "not":
                                            y, neg = y[1], True
                                        if y[0] in ("eq", "ne") and isinstance(y[1], Lin) and any(t[0] == "cell" and t[1] in lent_names for t in y[1].terms()):
                                            is_eq = (y[0] == "eq") != neg
                                            if not is_eq:
                                                pol = False
            cst = [x for x in evs if x.kind == "store" and x.arr.name == cnt]
            kst = [x for x in evs if x.kind in ("store", "slicestore") and x.arr.name == keyt]
            lst = [x for x in evs if x.kind == "store" and x.arr.name == lent]
            if pol is None or len(cst) != 1:
                bad_paths.append((le, "path with %d count stores and match polarity %r" % (len(cst), pol)))
                continue
            e = cst[0]
            c = Lin.term(e.old) if e.old is not None else None
            if role == "add":
                v = Lin.term(("param", "value"))
            else:
                oc = None
                for p, s in pa.items():
                    if "other.lhh_count" in s:
                        oc = p
                v = Lin.term(("cell", oc, e.memver.get(oc, 0), tuple(i.lin.key() for i in e.idx))) if oc else None
                if v is not None:
                    t = v.single_term()
                    if t not in w.P.ranges:
                        w.P.ranges[t] = k.ptypes[oc].scalar.range()
            if c is None or v is None or not isinstance(e.value, Num):
                bad_paths.append((le, "count store not understood"))
                continue
            new = e.value.lin
            if pol:
                box = FactBox(e.facts)
                g = w.minmax("min", c + v, Lin.const(ceiling), box)
                okk = (not kst and not lst and w.P.prove_le0(new - g, box.facts) and w.P.prove_le0(g - new, box.facts))
                cases["match"].append((bool(okk), "O1: on a match the key fields are untouched and count == min(c + v, ceiling)" if okk else
                                       "on a match: key fields written=%s/%s, new count %s is not min(c + v, ceiling)" % (bool(kst), bool(lst), show_lin(new)),
                                       fact_strs(e), e))
            elif kst or lst:
                paired = bool(kst) and bool(lst)
                p_ge = w.P.prove_le0(c - v, e.facts)
                eq = (new == v - c) or bool(w.P.prove_le0(new - (v - c), e.facts) and w.P.prove_le0((v - c) - new, e.facts)) \
                    or (new == c - v and bool(w.P.prove_le0(v - c, e.facts)) and bool(p_ge))
                okk = paired and p_ge and eq
                why = []
                if not paired:
                    why.append("a replacement must write key bytes, key length and count together (bytes=%s, length=%s)" % (bool(kst), bool(lst)))
                if not p_ge:
                    why.append("guard does not entail added amount >= old count")
                if not eq:
                    why.append("new count %s is not v - c" % show_lin(new))
                # the written key/length must be the incoming key's
                cases["replace"].append((bool(okk), "O2: replacement only when v >= c, count == v - c, all three fields written" if okk else "; ".join(why),
                                         fact_strs(e), e))
            else:
                p_le = w.P.prove_le0(v - c, e.facts)
                # (equal as linear forms, or provably equal under this path's facts: `v - c` where the path knows c == v)
                eq = (new == c - v) or bool(w.P.prove_le0(new - (c - v), e.facts) and w.P.prove_le0((c - v) - new, e.facts)) \
                    or (new == v - c and bool(w.P.prove_le0(c - v, e.facts)) and bool(p_le))
                okk = p_le and eq
                cases["decrement"].append((bool(okk), "O3: decrement only when v <= c, count == c - v, key kept" if okk else
                                           ("guard does not entail added amount <= old count" if not p_le else "new count %s is not c - v" % show_lin(new)),
                                           fact_strs(e), e))
        for name, goal in (("match", "O1 (stored key == incoming key): count rises by exactly the added amount (saturating), key fields untouched"),
                           ("replace", "O2 (different key, incoming amount wins): v >= c, new count v - c, bytes+length+count replaced together"),
                           ("decrement", "O3 (different key, stored key survives): v <= c, new count c - v, key fields untouched")):
            rs = cases[name]
            if not rs:
                ctx.ob("bm-table", k, k.node, "%s: %s case" % (k.name, name), goal, False,
                       "no path of the cell update implements this case (the Boyer-Moore transition table is incomplete)")
                continue
            node = rs[0][3].node
            agg(ctx, "bm-table", k, node, "%s: %s" % (name, src(k, node, 80)), goal, [r[:3] for r in rs])
        ctx.ob("bm-table", k, k.node, "%s: case split" % k.name,
               "O4: every path through the cell update is one of match / replace / decrement with exactly one count store",
               not bad_paths, "" if not bad_paths else bad_paths[0][1])
        # replacement writes the incoming key and its length (not something else)
        from .flow import _vkey
        res = []
        # the probe's length, per key comparison: read off whichever path through that comparison goes on to compare the lengths
        x_by_branch = {}
        for le in lends:
            evs = [x for x in on_path(w.events, le) if x.loops == le.loops]
            for a in [a for a in atoms if a[0] in evs]:
                xx = _probe_length(F, k, a[0], a[1], a[3], le.path)
                if xx is not None:
                    x_by_branch.setdefault(id(a[0]), xx)
        for le in lends:
            evs = [x for x in on_path(w.events, le) if x.loops == le.loops]
            kst = [x for x in evs if x.kind in ("store", "slicestore") and x.arr.name == keyt]
            lst = [x for x in evs if x.kind == "store" and x.arr.name == lent]
            if not (kst or lst):
                continue
            onp = [a for a in atoms if a[0] in evs]
            if not onp and len({id((a[1][2] or {}).get("node")) for a in atoms}) == 1:
                # a helper that tests the length first and returns before comparing any bytes: the kernel's one byte comparison names the probe
                onp = atoms[-1:]
                # ... on whichever path built the probe the way this path did (an array value is named after its allocation site)
                for a in atoms:
                    pr = [o for o in a[4] if not (isinstance(o, ArrSlice) and o.arr.name == keyt)]
                    if pr and kst and all(_same_source(x.value, pr[0]) for x in kst):
                        onp = [a]
                        break
            if not onp:
                res.append((None, "no key comparison on the replacement path"))
                continue
            b0, at0, pol0, cells0, ops0 = onp[-1]
            probe = [o for o in ops0 if not (isinstance(o, ArrSlice) and o.arr.name == keyt)]
            okk = bool(kst) and bool(probe) and all(_same_source(x.value, probe[0]) and _whole_slot(x.idx) and _whole_value(x.value) for x in kst)
            X = _probe_length(F, k, b0, at0, cells0, le.path)
            if X is None:
                X = x_by_branch.get(id(b0))
            okl = bool(lst) and X is not None and all(isinstance(x.value, Num) and x.value.lin == X for x in lst)
            res.append((bool(okk and okl), "the incoming key's bytes and length are stored" if okk and okl else
                        ("bytes written on replacement are not the whole incoming key slot (a partial copy leaves bytes of the evicted key behind)" if not okk else
                         "length written on replacement is not the incoming key's length"), fact_strs(le)))
        if res:
            agg(ctx, "bm-table", k, k.node, "%s: replacement payload" % k.name,
                "O2b: a replacement stores the incoming key's bytes and the incoming key's length", res)


def _whole_slot(idx):
    """Index of a key-table write covers the whole key slot: [row, col] or [row, col, :]."""
    rest = [i for i in idx if not isinstance(i, Num)]
    return all(isinstance(i, tuple) and i[0] == "slice" and i[1] is None and i[2] is None for i in rest)


def _whole_value(v):
    if isinstance(v, ArrSlice):
        return _whole_slot(v.idx)
    return isinstance(v, Arr)


def _same_source(v, probe):
    from .flow import _vkey
    if isinstance(v, ArrSlice) and isinstance(probe, ArrSlice):
        return v.arr.name == probe.arr.name and tuple(i.lin.key() for i in v.index_nums()) == tuple(i.lin.key() for i in probe.index_nums())
    if isinstance(v, Arr) and isinstance(probe, Arr):
        return v.name == probe.name
    return False


def _probe_length(F, k, b, at, cells, path=()):
    """The Lin the stored length is compared with in the match condition (the incoming key's length); when the length is compared in
    a decision of its own, that decision is looked up on `path`."""
    pa = F.param_attr().get(k.key, {})
    own = {p for p, s in pa.items() if "key_lens" in s}
    mc, _ = match_cond_of(b, at)
    if mc is None:
        return None
    idxkey = tuple(i.lin.key() for i in cells[0].index_nums())
    cands = list(conjuncts(mc))
    for (_n, _t, cc) in path:
        for x in conjuncts(cc):
            if x[0] == "not":
                x = x[1]
            if x[0] == "ne":
                x = ("eq",) + tuple(x[1:])
            cands.append(x)
    for x in cands:
        if x[0] != "eq" or not isinstance(x[1], Lin):
            continue
        lin = x[1]
        for t, coef in lin.c.items():
            if t[0] == "cell" and t[1] in own and t[3] == idxkey and coef in (1, -1):
                rest = lin - Lin.term(t, coef)
                return -rest if coef == 1 else rest
    return None


# ---------------------------------------------------------------------------
# keylen-inv / keynorm / hh-addr
# ---------------------------------------------------------------------------

def rule_keylen_inv(ctx):
    """Every store into a key_lens table stores a value <= max_key_len, or a copy of a stored length."""
    F = facts_of(ctx)
    ks = hh_kernels(F)
    n = 0
    for role in ("add", "merge"):
        k = ks[role]
        w = hh_walk(ctx, k)
        pa = F.param_attr().get(k.key, {})
        lent = F.param_for(k, "key_lens")
        lenany = {p for p, s in pa.items() if s & {"key_lens", "other.key_lens"}}
        mk = F.param_for(k, "max_key_len")
        stores = [e for e in w.events if e.kind == "store" and e.arr.name == lent]
        for g in group_by_node(stores):
            res = []
            for e in g:
                v = e.value
                if not isinstance(v, Num):
                    res.append((None, "stored length not understood"))
                    continue
                t = v.lin.single_term()
                if t is not None and t[0] == "cell" and t[1] in lenany:
                    res.append((True, "copy of a stored length", fact_strs(e)))
                    continue
                if mk is None:
                    res.append((None, "kernel has no max_key_len parameter"))
                    continue
                p = w.P.prove_le0(v.lin - Lin.term(("param", mk)), e.facts)
                res.append((bool(p), str(p) if p else "stored length %s may exceed max_key_len" % show_lin(v.lin), fact_strs(e)))
            n += 1
            agg(ctx, "keylen-inv", k, g[0].node, src(k, g[0].node), "stored key length <= max_key_len (so bytes(lhh[r, c, :len]) is the stored key)", res)
    return n


def _maxcount_pre(F, k):
    """Precondition of the reader kernel: key_len == len(key) and key_len <= max_key_len."""
    keyp = [p for p, t in k.ptypes.items() if t.kind == "bytes"]
    mk = F.param_for(k, "max_key_len")

    def pre(w, st):
        kl = st.env.get("key_len")
        key = st.env.get(keyp[0]) if keyp else None
        m = st.env.get(mk) if mk else None
        if isinstance(kl, Num) and isinstance(key, Bytes) and isinstance(m, Num):
            st.facts.append(kl.lin - key.length)
            st.facts.append(key.length - kl.lin)
            st.facts.append(kl.lin - m.lin)
    return pre


def rule_keynorm(ctx):
    """Writer and reader normalise a user key the same way; every prefix copy into the key buffer is well-shaped."""
    F = facts_of(ctx)
    ks = hh_kernels(F)
    cls = ctx.model.cls(*HH)
    # (a) inside the kernels: every `key_array[:n] = frombuffer(key)` has n <= len(key_array) and n == len(key)
    for role in ("add", "max"):
        k = ks[role]
        pre = _maxcount_pre(F, k) if role == "max" else None
        w = hh_walk(ctx, k, pre, tag="pre" if pre else "")
        sl = [e for e in w.events if e.kind == "slicestore" and e.arr.origin in ("zeros", "empty")]
        for g in group_by_node(sl):
            res = []
            for e in g:
                idx = e.idx[0] if e.idx else None
                v = e.value
                if not (isinstance(idx, tuple) and idx[0] == "slice" and idx[1] is None and isinstance(idx[2], Lin)
                        and isinstance(v, Arr) and v.origin == "frombuffer" and v.length is not None and e.arr.length is not None):
                    res.append((None, "prefix copy shape not understood"))
                    continue
                n = idx[2]
                p1 = w.P.prove_le0(n - e.arr.length, e.facts)
                p2 = w.P.prove_eq0(n - v.length, e.facts)
                res.append((bool(p1 and p2), "prefix length <= buffer length and == len(key)" if p1 and p2 else
                            ("copied prefix [:%s] may exceed the buffer of length %s" % (show_lin(n), show_lin(e.arr.length)) if not p1 else
                             "copied prefix [:%s] differs from the source length %s" % (show_lin(n), show_lin(v.length))), fact_strs(e)))
            agg(ctx, "keynorm", k, g[0].node, src(k, g[0].node),
                "the zero-padded key buffer is filled with exactly the (normalised) key", res)
        # key buffers built by frombuffer alone must have exactly max_key_len bytes where they are compared with a stored key
        atoms, missing, keytabs = _key_atoms(F, k, w)
        mk = F.param_for(k, "max_key_len")
        res = []
        for b, at, pol, cells, ops in atoms:
            probe = [o for o in ops if not (isinstance(o, ArrSlice) and o.arr.name in keytabs)]
            for pr in probe:
                if isinstance(pr, Arr) and pr.length is not None and mk:
                    p = w.P.prove_eq0(pr.length - Lin.term(("param", mk)), b.facts)
                    res.append((bool(p), "probe buffer has max_key_len bytes" if p else
                                "probe buffer of length %s is compared with a stored key of max_key_len bytes" % show_lin(pr.length), fact_strs(b)))
                    if pr.origin in ("zeros", "empty"):
                        # a freshly allocated buffer holds the key only after the key's bytes were copied into it
                        filled = any(x.kind == "slicestore" and x.arr.name == pr.name and isinstance(x.value, Arr) and x.value.origin == "frombuffer"
                                     for x in on_path(w.events, b))
                        res.append((filled, "the zero buffer received the key's bytes" if filled else
                                    "the zero-filled buffer is compared (and stored) without the key's bytes having been copied into it: every short key becomes the all-NUL key",
                                    fact_strs(b)))
                else:
                    res.append((None, "probe buffer not understood"))
        if atoms:
            agg(ctx, "keynorm", k, atoms[0][0].node, "%s: probe buffer vs stored key" % k.name,
                "the compared buffer has exactly max_key_len bytes on every path", res)
    # (b) the reader's precondition holds at every call site
    k = ks["max"]
    for site in F.calls_to(k):
        meth = site.caller
        if meth.cls is None:
            continue
        axioms = {}

        def ax(w, st, cellterm, idx):
            return [Lin.term(cellterm) - Lin.term(w.named(("attr", "self", "max_key_len"), (0, 2 ** 64 - 1)))]
        axioms["self.key_lens"] = ax
        w = F.walk(meth, cell_axioms=axioms, param_facts=_lhh_rowlen_fact)
        calls = [e for e in w.events if e.kind == "call" and e.callee is k]
        res = []
        for e in calls:
            am = dict(zip(k.params, e.args))
            key, kl, m = am.get([p for p, t in k.ptypes.items() if t.kind == "bytes"][0]), am.get("key_len"), am.get(F.param_for(k, "max_key_len"))
            if not (isinstance(key, Bytes) and isinstance(kl, Num) and isinstance(m, Num)):
                res.append((None, "call arguments not understood"))
                continue
            p1 = w.P.prove_eq0(kl.lin - key.length, e.facts)
            p2 = w.P.prove_le0(kl.lin - m.lin, e.facts)
            res.append((bool(p1 and p2), "key_len == len(key) <= max_key_len at the call" if p1 and p2 else
                        ("the caller does not guarantee len(key) <= max_key_len: the writer truncates over-long keys, the reader does not"
                         if not p2 else "key_len argument is not len(key)"), fact_strs(e)))
        agg(ctx, "keynorm", meth, calls[0].node if calls else meth.node, "%s(key, key_len) in %s" % (k.name, meth.qualname),
            "reader precondition: the key passed is already normalised like the writer normalises it (len <= max_key_len, key_len == len)", res)


def rule_hh_addr(ctx, rule="addr"):
    """Cells are addressed [row, fasthash64(normalised key, row) % width] in writer and reader."""
    F = facts_of(ctx)
    ks = hh_kernels(F)
    n = 0
    for role in ("add", "max"):
        k = ks[role]
        pre = _maxcount_pre(F, k) if role == "max" else None
        w = hh_walk(ctx, k, pre, tag="pre" if pre else "")
        pa = F.param_attr().get(k.key, {})
        tabs = {p for p, s in pa.items() if s & {"lhh", "lhh_count", "key_lens"}}
        width_p = F.param_for(k, "width")
        depth_p = F.param_for(k, "depth")
        mk = F.param_for(k, "max_key_len")
        keyp = [p for p, t in k.ptypes.items() if t.kind == "bytes"][0]
        acc = [e for e in w.events if e.kind in ("store", "read", "slicestore") and e.arr.name in tabs]
        for g in group_by_node(acc):
            res = []
            for e in g:
                nums = [i for i in e.idx if isinstance(i, Num)]
                lp = e.loops[-1] if e.loops else None
                okk = (lp is not None and len(e.loops) == 1 and lp.kind == "range" and lp.start == Lin.const(0) and lp.step == Lin.const(1)
                       and depth_p and lp.stop == Lin.term(("param", depth_p)) and len(nums) >= 2 and nums[0].lin == Lin.term(lp.varterm))
                why = "access is not [row, col, ...] inside `for row in range(depth)`"
                if okk:
                    evs = [x for x in on_path(w.events, e) if x.loops == e.loops]
                    colv = nums[1]
                    ct = colv.lin.single_term()
                    if ct is not None and ct[0] == "cell" and ct[1] not in tabs:
                        # a scratch array of columns filled, for every row, by an earlier pass over the same rows (rules_arith.two_pass_fill)
                        from .rules_arith import two_pass_fill
                        tp_ = two_pass_fill(w, ct, lp, evs)
                        if tp_ is not None:
                            lp, fill_store, evs = tp_
                            colv = fill_store.value
                    hs = hash_site(w, evs, colv, e)
                    if not hs:
                        okk, why = False, "column is not `fasthash64(key, row) % width`"
                    else:
                        c, wkey = hs
                        a = c.args
                        if wkey != Lin.term(("param", width_p)).key():
                            okk, why = False, "hash is not reduced modulo the width parameter"
                        elif not (len(a) == 2 and isinstance(a[1], Num) and seed_is_row(a[1].lin, lp)):
                            okk, why = False, "hash seed is not an injective function of the row"
                        elif not (isinstance(a[0], Bytes) and a[0].root == keyp and a[0].start == Lin.const(0)):
                            okk, why = False, "hashed bytes are not the key from its first byte"
                        else:
                            # normalised: whole key with len <= max_key_len, or key[:max_key_len]
                            L = a[0].length
                            p = w.P.prove_le0(L - Lin.term(("param", mk)), c.facts) if mk else None
                            if not p:
                                okk, why = False, "hashed key may be longer than max_key_len (writer and reader would hash different bytes)"
                res.append((bool(okk), "[row, fasthash64(normalised key, row) % width]" if okk else why, fact_strs(e)))
            n += 1
            agg(ctx, rule, k, g[0].node, src(k, g[0].node, 80), "cell addressed by this row's hash of the normalised key", res)
    return n


# ---------------------------------------------------------------------------
# maxcount (reader kernel) : running max over all rows of matching cells
# ---------------------------------------------------------------------------

def rule_maxcount(ctx):
    F = facts_of(ctx)
    k = hh_kernels(F)["max"]
    w = hh_walk(ctx, k, _maxcount_pre(F, k), tag="pre")
    cnt = F.param_for(k, "lhh_count")
    depth_p = F.param_for(k, "depth")
    rets = [e for e in w.events if e.kind == "ret" and not e.implicit]
    loops0 = [n for n in walk_no_nested(k.node) if isinstance(n, (ast.For, ast.While))]
    early = [r for r in rets if loops0 and not (comes_before(k.node, loops0[0], r.node) and not r.loops)]
    ctx.ob("scan-all", k, early[0].node if early else k.node, "%s: returns only after the row loop" % k.name,
           "the count is reported only after every row was examined", not early,
           "" if not early else "`%s` answers before/inside the loop over the rows" % src(k, early[0].node, 50))
    rets = [r for r in rets if r not in early]
    accs = {unparse(r.node.value) for r in rets if isinstance(r.node.value, ast.Name)}
    if len(accs) != 1 or not rets:
        ctx.ob("maxcount", k, k.node, "return", "the kernel returns its running maximum", None, "return shape not understood")
        return
    acc = next(iter(accs))
    loops = [n for n in walk_no_nested(k.node) if isinstance(n, (ast.For, ast.While))]
    lends = [e for e in w.events if e.kind == "loopend"]
    # the loop that reads the count table is the row loop; a separate earlier pass that only fills a scratch array of columns
    # (two-pass spelling; rule addr ties that array to the hash) is not a second maximum loop
    tabs_ = {p for p, s_ in F.param_attr().get(k.key, {}).items() if s_ & {"lhh", "lhh_count", "key_lens"}}
    rloops = [e.loops[-1] for e in w.events if e.kind == "read" and e.arr.name == cnt and e.loops]
    if rloops and len(loops) > 1:
        main = rloops[0]
        others_touch = [e for e in w.events if e.kind in ("read", "store", "slicestore") and e.arr.name in tabs_ and e.loops and e.loops[-1].node is not main.node]
        if not others_touch and any(l is main.node for l in loops):
            loops = [main.node]
            lends = [e for e in lends if e.loop.node is main.node]
    lp = lends[0].loop if lends else None
    okk = len(loops) == 1 and lp is not None and lp.kind == "range" and lp.start == Lin.const(0) and lp.step == Lin.const(1) \
        and depth_p and lp.stop == Lin.term(("param", depth_p))
    ctx.ob("scan-all", k, loops[0] if loops else k.node, "for %s" % (src(k, getattr(loops[0], "iter", None) or loops[0].test, 40) if loops else "?"),
           "the maximum runs over every row: one loop `range(depth)`", bool(okk))
    if not lends:
        return
    from .rules_arith import _value_before_loop
    init = _value_before_loop(w, k, loops[0], acc)
    okk = isinstance(init, Num) and init.lin == Lin.const(0)
    ctx.ob("maxcount", k, loops[0], "%s (initial)" % acc, "running maximum starts at 0 (an absent key reports 0)", bool(okk) if isinstance(init, Num) else None)
    atoms, missing, keytabs = _key_atoms(F, k, w)
    lentabs = {p for p, s_ in F.param_attr().get(k.key, {}).items() if s_ & {"key_lens"}}
    assigns = [e for e in w.events if e.kind == "assign" and e.name == acc and e.loops and e.loops[-1].node is lp.node]
    for g in group_by_node(assigns):
        res = []
        for e in g:
            ok1 = isinstance(e.value, Num) and isinstance(e.old, Num) and w.P.prove_le0(e.old.lin - e.value.lin, e.facts)
            t = e.value.lin.single_term() if isinstance(e.value, Num) else None
            if t is not None and t[0] == "max" and isinstance(e.old, Num):
                # acc = max(acc, <stored count>): the candidate is the operand that is not the old maximum
                mm = w.P.minmax.get(t)
                if mm and mm[1] == e.old.lin:
                    t = mm[2].single_term()
                elif mm and mm[2] == e.old.lin:
                    t = mm[1].single_term()
            ok2 = t is not None and t[0] == "cell" and t[1] == cnt
            # on a path where the stored key matched
            ok3 = any(at[1] in e.atoms and e.atoms[at[1]] for b, at, pol, cells, ops in atoms)
            okk = ok1 and ok2 and ok3
            res.append((bool(okk), "raised to the count of a cell whose stored key matches" if okk else
                        ("the running maximum may fall" if not ok1 else "assigned value is not a stored count" if not ok2 else
                         "the count of a cell whose key does not match can be reported"), fact_strs(e)))
        agg(ctx, "maxcount", k, g[0].node, src(k, g[0].node), "reported count is the count of a matching cell and never falls", res)
    # at the end of each iteration: match => acc >= cell count
    res = []
    for le in lends:
        evs = [x for x in on_path(w.events, le) if x.loops and x.loops[-1] is le.loops[-1]]
        a = le.env.get(acc)
        reads = [x for x in evs if x.kind == "read" and x.arr.name == cnt]
        if not isinstance(a, Num):
            res.append((None, "accumulator not understood"))
            continue
        # "this row's cell stores the key" == bytes equal AND stored length equal, wherever the kernel decides the two
        conds = []
        for b, at, pol, cells, ops in atoms:
            conds.append(("atom", at[1], at[2]))
            idxkey = tuple(i.lin.key() for i in cells[0].index_nums())
            for en in le.path:
                for cc in (en[2], c_not(en[2])):
                    for x in conjuncts(cc):
                        if x[0] == "eq" and any(t[0] == "cell" and t[1] in lentabs and t[3] == idxkey for t in x[1].terms()) \
                                and not any(show_cond(x) == show_cond(y) for y in conds):
                            conds.append(x)
        st = w.refine(le, conds)
        if st.dead:
            res.append((True, "path excludes a match", fact_strs(le)))
            continue
        if not reads:
            # a non-match path may skip reading the count only if matching is impossible
            res.append((False, "an iteration can skip a matching cell without reading its count", fact_strs(le)))
            continue
        good = any(w.P.prove_le0(Lin.term(rd.term) - a.lin, st.facts) for rd in reads)
        res.append((bool(good), "match => acc >= count of this row's cell" if good else
                    "a matching cell with a larger count can be skipped", fact_strs(le)))
    agg(ctx, "scan-all", k, loops[0], "for-body of %s" % k.name,
        "after each iteration, if this row's cell stores the key then the running maximum is >= its count", res)


# ---------------------------------------------------------------------------
# report / scan-all (python level): generate_candidate_set, __getitem__
# ---------------------------------------------------------------------------

def _lhh_rowlen_fact(w_, st_):
    """The key table's last dimension is max_key_len (constructor allocation; rules layout / alloc-agree)."""
    rl = Lin.term(w_.named(("rowlen", "self.lhh"), (0, 2 ** 64 - 1)))
    mk = Lin.term(w_.named(("attr", "self", "max_key_len"), (0, 2 ** 64 - 1)))
    st_.facts.append(rl - mk)
    st_.facts.append(mk - rl)


def rule_report(ctx):
    F = facts_of(ctx)
    cls = ctx.model.cls(*HH)
    gcs = cls.methods.get("generate_candidate_set")
    if gcs is None:
        raise AnalysisError("HeavyHitters.generate_candidate_set not found")
    k = hh_kernels(F)["max"]

    def ax(w, st, cellterm, idx):
        return [Lin.term(cellterm) - Lin.term(w.named(("attr", "self", "max_key_len"), (0, 2 ** 64 - 1)))]
    w = F.walk(gcs, cell_axioms={"self.key_lens": ax}, param_facts=_lhh_rowlen_fact)
    ins = [e for e in w.events if e.kind == "otherstore" and isinstance(e.target, ast.Subscript)
           and dotted(e.target.value) == "self.candidate_set"]
    if not ins:
        ctx.ob("report", gcs, gcs.node, "self.candidate_set[key] = ...", "candidates are inserted into the candidate set", None, "no insertion found")
        return
    for g in group_by_node(ins):
        res_k, res_c, res_l = [], [], []
        for e in g:
            key = e.idx[0] if e.idx else None
            # key = bytes(self.lhh[row, column, :key_len]) with key_len = self.key_lens[row, column]
            okk = isinstance(key, Bytes) and isinstance(key.root, tuple) and key.root[0] == "arrbytes" and key.root[1] == "self.lhh"
            if okk:
                t = key.length.single_term()
                okk = t is not None and t[0] == "cell" and t[1] == "self.key_lens" and t[3] == key.root[2]
            # cells enumerated by something other than range loops (np.nonzero, a precomputed index list): which cell a (row, column)
            # pair names is not read -- undecided, not refuted
            unread = any(l.kind != "range" for l in e.loops)
            res_k.append(((None if unread and not okk else bool(okk)), "reported key = stored bytes cut to the stored length of the same cell" if okk else
                          "reported key is not bytes(lhh[r, c, :key_lens[r, c]])" + (" (cells are not enumerated by range loops: shape not read)" if unread else ""), fact_strs(e)))
            # count comes from the reader kernel called with this key
            v = e.value
            calls = [c for c in on_path(w.events, e) if c.kind == "call" and c.callee is k]
            okc = False
            if calls and isinstance(v, Num) and isinstance(calls[-1].result, Num) and v.lin == calls[-1].result.lin:
                am = dict(zip(k.params, calls[-1].args))
                kk = am.get([p for p, t in k.ptypes.items() if t.kind == "bytes"][0])
                okc = isinstance(kk, Bytes) and isinstance(key, Bytes) and kk.root == key.root and kk.length == key.length
            res_c.append((okc, "reported count = %s(this key)" % k.name if okc else "reported count does not come from %s of the reported key" % k.name, fact_strs(e)))
            # loops cover range(self.depth) x range(self.width)
            lps = e.loops
            okl = len(lps) == 2 and all(l.kind == "range" and l.start == Lin.const(0) and l.step == Lin.const(1) for l in lps) \
                and lps[0].stop == Lin.term(("attr", "self", "depth")) and lps[1].stop == Lin.term(("attr", "self", "width"))
            if okl and isinstance(key, Bytes) and isinstance(key.root, tuple) and len(key.root) > 2:
                okl = key.root[2] == (Lin.term(lps[0].varterm).key(), Lin.term(lps[1].varterm).key())
            res_l.append(((None if unread and not okl else bool(okl)), "candidates are taken from every cell of every row" if okl else
                          "candidate scan does not cover range(self.depth) x range(self.width)" + (" (cells are not enumerated by range loops: shape not read)" if unread else ""), fact_strs(e)))
        agg(ctx, "report", gcs, g[0].node, src(gcs, g[0].node), "a reported key is a stored key", res_k)
        agg(ctx, "same-kernel", gcs, g[0].node, src(gcs, g[0].node), "a reported count is the reader kernel's value for that key (== hh[key])", res_c)
        agg(ctx, "scan-all", gcs, g[0].node, src(gcs, g[0].node), "the candidate scan visits all rows and all columns", res_l)
    # zero-count cells are the only cells skipped before the reader kernel is consulted
    conts = [n for n in walk_no_nested(gcs.node) if isinstance(n, ast.Continue)]
    for n in conts:
        pass
    # __getitem__ returns the reader kernel's value
    gi = cls.methods.get("__getitem__")
    if gi is None:
        raise AnalysisError("HeavyHitters.__getitem__ not found")
    wg = F.walk(gi)
    rets = [e for e in wg.events if e.kind == "ret" and not e.implicit]
    res = []
    for r in rets:
        calls = [c for c in on_path(wg.events, r) if c.kind == "call" and c.callee is k]
        okk = bool(calls) and isinstance(r.value, Num) and isinstance(calls[-1].result, Num) and r.value.lin == calls[-1].result.lin
        res.append((okk, "hh[key] is %s(key)" % k.name if okk else "hh[key] does not return the reader kernel's value", fact_strs(r)))
    agg(ctx, "same-kernel", gi, rets[0].node if rets else gi.node, "return %s(...)" % k.name, "hh[key] is the reader kernel's value", res)


def _already_listed(ev):
    """The path decided `self.candidate_set[key] != 0` (the key is already listed): the only admissible reason, besides an empty
    cell, for not consulting the reader kernel."""
    for (_, _, cc) in ev.path:
        for c in conjuncts(cc):
            pol = True
            while c[0] == "not":
                c, pol = c[1], not pol
            if c[0] == "atom" and isinstance(c[1], tuple) and c[1][0] == "cmp" and c[1][1] == "eq":
                info = c[2] or {}
                a, b = info.get("a"), info.get("b")
                for x, y in ((a, b), (b, a)):
                    xs = getattr(x, "node", None)
                    is_cs = xs is not None and isinstance(xs, ast.Subscript) and (dotted(xs.value) or "").endswith("candidate_set")
                    # `self.candidate_set.get(key, 0)` reads the same count (0 for a key not listed yet)
                    if not is_cs and isinstance(xs, ast.Call) and isinstance(xs.func, ast.Attribute) and xs.func.attr == "get" and len(xs.args) == 2 \
                            and (dotted(xs.func.value) or "").endswith("candidate_set") and const_int(xs.args[1]) == 0:
                        is_cs = True
                    if is_cs and isinstance(y, Num) and y.lin == Lin.const(0) and pol is False:
                        return True
            if c[0] == "atom" and isinstance(c[1], tuple) and c[1][0] == "cmp" and c[1][1] in ("In", "NotIn"):
                info = c[2] or {}
                b = info.get("b")
                bn = getattr(b, "node", None)
                is_cs = (isinstance(b, Opaque) and isinstance(b.desc, tuple) and len(b.desc) >= 2 and b.desc[0] == "call" and str(b.desc[1]).split(".")[-1] == "Counter") \
                    or (bn is not None and (dotted(bn) or "").endswith("candidate_set"))
                if is_cs and ((c[1][1] == "In" and pol) or (c[1][1] == "NotIn" and not pol)):
                    return True
            # `key in self.candidate_set` (true) / `key not in self.candidate_set` (false): the key is already listed
            if c[0] == "atom" and isinstance(c[1], tuple) and c[1][0] == "truth" and isinstance(c[1][1], str) and "candidate_set" in c[1][1]:
                try:
                    t = ast.parse(c[1][1], mode="eval").body
                except SyntaxError:
                    t = None
                if isinstance(t, ast.Compare) and len(t.ops) == 1 and (dotted(t.comparators[0]) or "").endswith("candidate_set"):
                    if (isinstance(t.ops[0], ast.In) and pol) or (isinstance(t.ops[0], ast.NotIn) and not pol):
                        return True
    return False


def rule_skip_zero(ctx):
    """generate_candidate_set skips a cell only when its count is zero."""
    F = facts_of(ctx)
    cls = ctx.model.cls(*HH)
    gcs = cls.methods["generate_candidate_set"]
    w = F.walk(gcs)
    # every path of the inner loop body either reaches the reader-kernel call / insertion decision or skips with count == 0
    k = hh_kernels(F)["max"]
    lends = [e for e in w.events if e.kind == "loopend" and len(e.loops) == 2]
    res = []
    for le in lends:
        evs = [x for x in on_path(w.events, le) if x.loops == le.loops]
        called = any(x.kind == "call" and x.callee is k for x in evs)
        if called:
            res.append((True, "cell considered", fact_strs(le)))
            continue
        # skipped: allowed reasons: count == 0, or key already in the candidate set (counted once)
        rd = [x for x in evs if x.kind == "read" and x.arr.name == "self.lhh_count"]
        def _this_cell(x):
            # the count that is tested is the count of the cell this iteration is at: [outer loop variable, inner loop variable]
            nums = [i for i in x.idx if isinstance(i, Num)]
            lv = [lp.varterm for lp in le.loops]
            return len(nums) == 2 and all(v is not None for v in lv) and nums[0].lin == Lin.term(lv[0]) and nums[1].lin == Lin.term(lv[1])
        zero = any(_this_cell(x) and w.P.prove_eq0(Lin.term(x.term), le.facts) for x in rd)
        dup = (not zero) and _already_listed(le)
        res.append((bool(zero or dup), "skipped because the count is zero" if zero else "skipped because the key is already a candidate" if dup else
                    "a cell with a non-zero count is skipped without consulting the reader kernel", fact_strs(le)))
    agg(ctx, "scan-all", gcs, gcs.node, "cell skip conditions in generate_candidate_set",
        "only empty (zero-count) cells and already-listed keys are skipped", res)
    # the scan runs over the whole table: nothing leaves the row/column loops early
    early = [e for e in w.events if (e.kind == "ret" and e.loops) or e.kind == "loopbreak"]
    res = [(False, "the scan of the table is abandoned at `%s`: cells after it are never examined, so a key that qualifies can be missing"
            % unparse(e.node, 50), fact_strs(e)) for e in early]
    starts = [e for e in w.events if e.kind == "loopstart" and isinstance(e.node, ast.For)]
    full = []
    for e in starts:
        lp = e.loop
        full.append(lp.kind == "range" and lp.start == Lin.const(0) and lp.step == Lin.const(1))
    unread = any(e.loop.kind != "range" for e in starts)
    agg(ctx, "scan-all", gcs, (early[0].node if early else gcs.node), "row/column loops of generate_candidate_set",
        "every cell of the table is examined (full ranges, no early exit)",
        res or [((None if unread else bool(full) and all(full)), "full ranges, no early exit" if full and all(full) else
                 "a scan loop is not a range loop: what it enumerates is not read" if unread else "a scan loop does not start at 0 with step 1", [])])


# ---------------------------------------------------------------------------
# C13: cachekey / filter / topk / mutators
# ---------------------------------------------------------------------------

def _names_in(node):
    return {unparse(n) for n in ast.walk(node) if isinstance(n, (ast.Attribute, ast.Name, ast.Call))}


def rule_cachekey(ctx):
    F = facts_of(ctx)
    cls = ctx.model.cls(*HH)
    # the cache a fresh sketch starts with is a valid cache of the empty sketch: recorded n_added 0, no candidates
    defs = {}
    for d in F.attr_defs(cls):
        defs.setdefault(d.attr, []).append(d)
    d0 = defs.get("n_added_sort", [])
    okk = bool(d0) and all(const_int(d.value) == 0 for d in d0)
    ctx.ob("cachekey", F.ctor(cls), d0[0].stmt if d0 else F.ctor(cls).node, "self.n_added_sort = 0",
           "a fresh sketch records n_added 0 for its (empty) cache, so the first add makes it stale", okk,
           "" if okk else "the recorded n_added of a fresh sketch is not 0: adds up to that number are answered from the empty cache")
    d1 = defs.get("candidate_set", [])
    okk = bool(d1) and all(isinstance(d.value, ast.Call) and (dotted(d.value.func) or "").split(".")[-1] == "Counter" and not d.value.args and not d.value.keywords for d in d1)
    ctx.ob("cachekey", F.ctor(cls), d1[0].stmt if d1 else F.ctor(cls).node, "self.candidate_set = Counter()", "a fresh sketch starts with no candidates", okk)
    q = cls.methods.get("query")
    gcs = cls.methods.get("generate_candidate_set")
    if q is None or gcs is None:
        raise AnalysisError("HeavyHitters.query / generate_candidate_set not found")
    w = F.walk(q)
    # (1) on every return path of query: either generate_candidate_set(threshold) was called, or the facts entail
    #     recorded n_added == current n_added  and recorded threshold == effective threshold
    rets = [e for e in w.events if e.kind == "ret" and not e.implicit]
    res = []
    for r in rets:
        pre = on_path(w.events, r)
        regen = [c for c in pre if c.kind == "call" and c.name == "self.generate_candidate_set"]
        if regen:
            # the threshold passed must be the effective threshold of this query
            res.append((True, "candidate set regenerated on this path", fact_strs(r)))
            continue
        fresh_n, fresh_t = _cache_fresh(w, r)
        okk = fresh_n and fresh_t
        res.append((bool(okk), "cache hit only when both recorded keys are current" if okk else
                    ("cache reused although n_added may have changed" if not fresh_n else
                     "cache reused although the threshold may differ from the one it was built with"), fact_strs(r)))
    agg(ctx, "cachekey", q, rets[0].node if rets else q.node, "stale test in query()",
        "the candidate cache is reused only if n_added and the threshold are those it was built for", res)
    # (2) the regeneration passes the effective threshold
    calls = [c for c in w.events if c.kind == "call" and c.name == "self.generate_candidate_set"]
    res = []
    for c in calls:
        thr = w.events and _effective_threshold(w, c.env)
        a = c.args[0] if c.args else c.kwargs.get("threshold")
        okk = a is not None and thr is not None and _same_val(a, thr)
        res.append((bool(okk), "regenerated with this query's threshold" if okk else "regeneration does not receive this query's effective threshold", fact_strs(c)))
    agg(ctx, "cachekey", q, calls[0].node if calls else q.node, "self.generate_candidate_set(threshold)",
        "regeneration uses the effective threshold of the query", res)
    # (3) generate_candidate_set records both keys and starts from a fresh Counter before filling
    wg = F.walk(gcs)
    ins = [e for e in wg.events if e.kind == "otherstore" and isinstance(e.target, ast.Subscript)
           and dotted(e.target.value) == "self.candidate_set"]
    rets_g = [e for e in wg.events if e.kind == "ret"]
    res_n, res_t, res_f = [], [], []
    for r in rets_g:
        pre = on_path(wg.events, r)
        a_n = [x for x in pre if x.kind == "attrstore" and x.target == "self.n_added_sort"]
        a_t = [x for x in pre if x.kind == "attrstore" and x.target == "self.threshold_sort"]
        a_c = [x for x in pre if x.kind == "attrstore" and x.target == "self.candidate_set"]
        okn = bool(a_n) and isinstance(a_n[-1].value, Num) and a_n[-1].value.lin == Lin.term(("mcall", "self", "n_added"))
        res_n.append((okn, "records n_added()" if okn else "self.n_added_sort is not set to self.n_added()", fact_strs(r)))
        thr = _effective_threshold(wg, r.env)
        okt = bool(a_t) and thr is not None and _same_val(a_t[-1].value, thr)
        res_t.append((okt, "records the effective threshold" if okt else "self.threshold_sort is not set to the effective threshold", fact_strs(r)))
        okf = bool(a_c) and isinstance(a_c[-1].node.value, ast.Call) and call_name(a_c[-1].node.value) in ("Counter", "collections.Counter") \
            and not a_c[-1].node.value.args and not a_c[-1].loops
        res_f.append((okf, "starts from an empty Counter" if okf else "the candidate set is not reset to an empty Counter before filling", fact_strs(r)))
    node = gcs.node
    agg(ctx, "cachekey", gcs, node, "self.n_added_sort = self.n_added()", "the cache records the n_added it was built at", res_n)
    agg(ctx, "cachekey", gcs, node, "self.threshold_sort = threshold", "the cache records the threshold it was built with", res_t)
    agg(ctx, "cachekey", gcs, node, "self.candidate_set = Counter()", "every rebuild starts from an empty candidate set", res_f)
    # insertions happen after the reset
    res = []
    for e in ins:
        pre = on_path(wg.events, e)
        okk = any(x.kind == "attrstore" and x.target == "self.candidate_set" for x in pre)
        res.append((okk, "filled after the reset" if okk else "candidates inserted before the reset", fact_strs(e)))
    agg(ctx, "cachekey", gcs, ins[0].node if ins else node, "fill after reset", "candidates are inserted into the fresh Counter", res)


def _is_n_added(node):
    return isinstance(node, ast.Call) and dotted(node.func) == "self.n_added" and not node.args


def _same_val(a, b):
    if isinstance(a, Num) and isinstance(b, Num):
        return a.lin == b.lin
    return a is b


def _effective_threshold(w, env, pname="threshold"):
    """The value this run works with: whichever local holds uint32(<threshold parameter>) or the default uint32(phi * n_added()) --
    found by value, so the local may have any name.  Falls back to the binding of the parameter's own name."""
    cands = []
    for name, v in env.items():
        if isinstance(name, str) and name != pname and not name.startswith(("@", "^")) and isinstance(v, Num):
            if _is_cast_of_param(w, v, pname) or _is_default_threshold(w, v):
                cands.append(v)
    if cands and all(c.lin == cands[0].lin for c in cands):
        return cands[0]
    return env.get(pname)


def _cache_fresh(w, r):
    """Facts on this path entail: recorded n_added >= current n_added (monotone counter => equal), recorded threshold == effective."""
    A = Lin.term(("attr", "self", "n_added_sort"))
    N = Lin.term(("mcall", "self", "n_added"))
    T = Lin.term(("attr", "self", "threshold_sort"))
    thr = _effective_threshold(w, r.env)
    fresh_n = bool(w.P.prove_le0(N - A, r.facts))
    fresh_t = isinstance(thr, Num) and bool(w.P.prove_eq0(T - thr.lin, r.facts))
    return fresh_n, fresh_t


def rule_filter(ctx):
    F = facts_of(ctx)
    cls = ctx.model.cls(*HH)
    gcs = cls.methods["generate_candidate_set"]
    q = cls.methods["query"]
    k = hh_kernels(F)["max"]
    w = F.walk(gcs)
    ins = [e for e in w.events if e.kind == "otherstore" and isinstance(e.target, ast.Subscript)
           and dotted(e.target.value) == "self.candidate_set"]
    # inserted iff max_count >= threshold
    res = []
    for e in ins:
        thr = _threshold_on_path(w, e)
        v = e.value
        okk = isinstance(thr, Num) and isinstance(v, Num) and bool(w.P.prove_le0(thr.lin - v.lin, e.facts))
        res.append((okk, "inserted only when count >= threshold" if okk else "a candidate below the threshold can be inserted", fact_strs(e)))
    agg(ctx, "filter", gcs, ins[0].node if ins else gcs.node, "if max_count >= threshold: insert", "every listed count is >= the threshold", res)
    lends = [e for e in w.events if e.kind == "loopend" and len(e.loops) == 2]
    res = []
    for le in lends:
        evs = [x for x in on_path(w.events, le) if x.loops == le.loops]
        calls = [x for x in evs if x.kind == "call" and x.callee is k]
        if not calls:
            continue
        inserted = any(x in ins for x in evs)
        if inserted:
            continue
        thr = _threshold_on_path(w, le)
        mc = calls[-1].result
        okk = isinstance(thr, Num) and isinstance(mc, Num) and bool(w.P.prove_le0(mc.lin - thr.lin + 1, le.facts))
        res.append((okk, "omitted only when count < threshold" if okk else "a key with count >= threshold can be omitted", fact_strs(le)))
    agg(ctx, "filter", gcs, ins[0].node if ins else gcs.node, "else: omit", "a key is omitted only when its count is below the threshold", res)
    # default threshold identical in query and generate_candidate_set: uint32(self.phi * self.n_added()) on every path that decided
    # `threshold is None`; the caller's value (as uint32) otherwise
    for meth in (q, gcs):
        wm = F.walk(meth)
        tp = "threshold" if "threshold" in meth.params else None
        if tp is None:
            ctx.ob("filter", meth, meth.node, "%s(threshold=...)" % meth.name, "the method takes an optional threshold", None)
            continue
        if meth is gcs:
            uses = [(e, e.value) for e in wm.events if e.kind == "attrstore" and e.target == "self.threshold_sort"]
            what = "self.threshold_sort = threshold"
        else:
            uses = [(e, e.args[0] if e.args else None) for e in wm.events if e.kind == "call" and e.name == "self.generate_candidate_set"]
            what = "self.generate_candidate_set(threshold)"
        res = []
        for e, v in uses:
            side = _none_side(e, tp)
            truth = _truth_side(e, tp) if side is None else None
            if side is None and truth is not None:
                # the path decided the truth value of the threshold, not `is None`: falsy covers None and an explicit 0 alike
                if truth:
                    okk = isinstance(v, Num) and (v.lin == Lin.term(("param", tp)) or _is_cast_of_param(wm, v, tp))
                    res.append((okk, "the caller's (non-zero) threshold is used" if okk else "an explicit threshold is not passed on unchanged", fact_strs(e)))
                else:
                    okk = isinstance(v, Num) and (v.lin == Lin.term(("param", tp)) or v.lin == Lin.const(0) or _is_cast_of_param(wm, v, tp))
                    res.append((okk, "a zero threshold stays zero" if okk else
                                "the default is chosen by the truth value of `threshold`: an explicit threshold of 0 is replaced by floor(phi * n_added())", fact_strs(e)))
            elif side is None:
                res.append((None, "the path does not decide `threshold is None`"))
            elif side:
                okk = _is_default_threshold(wm, v)
                res.append((okk, "default threshold is uint32(self.phi * self.n_added())" if okk else
                            "default threshold is not uint32(self.phi * self.n_added())", fact_strs(e)))
            else:
                okk = isinstance(v, Num) and (v.lin == Lin.term(("param", tp)) or _is_cast_of_param(wm, v, tp))
                res.append((okk, "the caller's threshold is used" if okk else "an explicit threshold is not passed on unchanged", fact_strs(e)))
        agg(ctx, "filter", meth, uses[0][0].node if uses else meth.node, "%s: %s" % (meth.name, what),
            "threshold defaults to floor(phi * n_added()) as uint32, identically in query and generate_candidate_set",
            res or [(None, "no use of the threshold found", [])])


def _threshold_on_path(w, ev):
    """The threshold this run of generate_candidate_set works with: what it recorded in self.threshold_sort on this path."""
    st = [x for x in on_path(w.events, ev) if x.kind == "attrstore" and x.target == "self.threshold_sort"]
    return st[-1].value if st else None


def _none_side(ev, pname):
    """True / False: the path of `ev` decided `<pname> is None` that way; None: undecided."""
    for (_, _, cc) in ev.path:
        for c in conjuncts(cc):
            pol = True
            while c[0] == "not":
                c, pol = c[1], not pol
            if c[0] == "atom" and isinstance(c[1], tuple) and c[1][0] == "cmp" and c[1][1] in ("is", "eq") \
                    and ("'%s'" % pname) in str(c[1][2]) and "None" in str(c[1][3]):
                return pol
            if c[0] == "atom" and isinstance(c[1], tuple) and c[1][0] == "cmp" and c[1][1] in ("isnot", "ne") \
                    and ("'%s'" % pname) in str(c[1][2]) and "None" in str(c[1][3]):
                return not pol
    return None


def _truth_side(ev, pname):
    """True / False: the path of `ev` decided the truth value of the bare parameter (`if threshold:`); None otherwise."""
    pl = Lin.term(("param", pname))
    for (_, _, cc) in ev.path:
        for c in conjuncts(cc):
            pol = True
            while c[0] == "not":
                c, pol = c[1], not pol
            if c[0] in ("ne", "eq") and isinstance(c[1], Lin) and (c[1] == pl or c[1] == -pl):
                return pol if c[0] == "ne" else not pol
    return None


def _is_default_threshold(w, v):
    if not isinstance(v, Num):
        return False
    t = v.lin.single_term()
    if t is None or t[0] != "trunc" or "uint32" not in str(t[1]):
        return False
    phi = Lin.term(("attr", "self", "phi")).key()
    nad = Lin.term(("mcall", "self", "n_added")).key()
    for c in w.events:
        if c.kind == "cast" and c.fromfloat and isinstance(c.result, Num) and c.result.lin == v.lin and isinstance(c.arg, Num):
            a = c.arg.lin.single_term()
            if a is not None and a[0] == "op" and a[1] == "Mult" and {a[2], a[3]} == {phi, nad} and c.arg.lin == Lin.term(a):
                return True
            # through int()/floor of the product
            if a is not None and a[0] in ("trunc", "floor"):
                continue
    return False


def _is_cast_of_param(w, v, pname):
    for c in w.events:
        if c.kind == "cast" and isinstance(c.result, Num) and c.result.lin == v.lin and isinstance(c.arg, Num) \
                and c.arg.lin == Lin.term(("param", pname)):
            return True
    return False


def _default_threshold_ok(node, cls=None):
    # a zero-argument helper method: every return of it must have the accepted form
    if cls is not None and isinstance(node, ast.Call) and not node.args and not node.keywords and (dotted(node.func) or "").startswith("self."):
        h = cls.resolve(dotted(node.func)[5:])
        if h is not None and h.name not in ("n_added", "n_records"):
            rets = [n for n in walk_no_nested(h.node) if isinstance(n, ast.Return)]
            return bool(rets) and all(_default_threshold_ok(r.value) for r in rets)
    if not (isinstance(node, ast.Call) and dotted(node.func) in ("np.uint32", "uint32", "numpy.uint32") and len(node.args) == 1):
        return False
    a = node.args[0]
    if isinstance(a, ast.Call) and dotted(a.func) in ("int", "np.floor", "math.floor") and len(a.args) == 1:
        a = a.args[0]
    if not (isinstance(a, ast.BinOp) and isinstance(a.op, ast.Mult)):
        return False
    parts = {unparse(a.left), unparse(a.right)}
    return parts == {"self.phi", "self.n_added()"}


def rule_topk(ctx):
    cls = ctx.model.cls(*HH)
    q = cls.methods["query"]
    rets = [n for n in walk_no_nested(q.node) if isinstance(n, ast.Return)]
    for r in rets:
        v = r.value
        okk = isinstance(v, ast.Call) and dotted(v.func) == "self.candidate_set.most_common" and len(v.args) == 1 \
            and isinstance(v.args[0], ast.Name) and v.args[0].id == "k" and not v.keywords
        ctx.ob("topk", q, r, "return %s" % unparse(v), "the answer is candidate_set.most_common(k), unmodified", okk,
               "" if okk else "query() does not return self.candidate_set.most_common(k)")
    if not rets:
        ctx.ob("topk", q, q.node, "return", "query returns the top-k", None, "no return statement")
    # k is not rebound before use
    reb = [n for n in walk_no_nested(q.node) if isinstance(n, ast.Name) and n.id == "k" and isinstance(n.ctx, ast.Store)]
    ctx.ob("topk", q, q.node, "k", "k reaches most_common unchanged", not reb)


MUTATOR_EXEMPT = {
    "attach_existing_shm": "documented for freshly constructed worker-side views (parallel_add); never followed by query on a stale cache there",
    "__init__": "constructor: the cache is created empty together with the tables",
    "__del__": "destructor",
}


def resolve_cast(v):
    """np.uintN(x) / int(x) -> x"""
    while isinstance(v, ast.Call) and len(v.args) == 1 and not v.keywords and (dotted(v.func) or "").split(".")[-1] in (
            "int", "uint8", "uint16", "uint32", "uint64", "int64"):
        v = v.args[0]
    return v


def _unwrap_copy(v):
    """x.copy() / Counter(x) / dict(x) / copy.copy(x) -> x"""
    while isinstance(v, ast.Call):
        if isinstance(v.func, ast.Attribute) and v.func.attr == "copy" and not v.args and not v.keywords:
            v = v.func.value
        elif (dotted(v.func) or "") in ("Counter", "collections.Counter", "dict", "copy.copy", "copy.deepcopy") and len(v.args) == 1 and not v.keywords:
            v = v.args[0]
        else:
            break
    return v


def rule_mutators(ctx):
    """Every method that writes a persistent table either bumps n_added_records[0] through its kernel or rebuilds the cache -- or
    resets the tables together with the cache (clear), or hands a freshly built object the tables AND the cache they belong to (copy)."""
    F = facts_of(ctx)
    cls = ctx.model.cls(*HH)
    tables = {"lhh", "lhh_count", "key_lens", "n_added_records"}
    cache = ("candidate_set", "n_added_sort", "threshold_sort")

    def recv_attr(t):
        """(receiver name, attribute) of `name.attr` / `name.attr[...]`."""
        if isinstance(t, ast.Subscript):
            t = t.value
        if isinstance(t, ast.Attribute) and isinstance(t.value, ast.Name):
            return t.value.id, t.attr
        return None, None

    def is_zero_fill(n):
        """self.T[...] = 0 over full slices"""
        if isinstance(n, ast.Assign) and len(n.targets) == 1 and isinstance(n.targets[0], ast.Subscript) and const_int(n.value) == 0:
            sl = n.targets[0].slice
            parts = sl.elts if isinstance(sl, ast.Tuple) else [sl]
            return all((isinstance(x, ast.Slice) and x.lower is None and x.upper is None and x.step is None) or
                       (isinstance(x, ast.Constant) and x.value is Ellipsis) for x in parts)
        return False

    for name, meth in cls.methods.items():
        how = []
        self_writes, zero_fills, other_writes = [], set(), {}        # other_writes: local receiver -> {table: source expr}
        for c in F.calls_from(meth):
            if c.callee.is_kernel:
                wr = F.effects.written_params(c.callee)
                for p, a in c.argmap.items():
                    if self_attr(a) in tables and p in wr:
                        self_writes.append(c.node)
                        how.append(c)
        for n in walk_no_nested(meth.node):
            if isinstance(n, ast.Call) and dotted(n.func) in ("np.copyto", "numpy.copyto") and n.args:
                r, a = recv_attr(n.args[0])
                if a in tables:
                    if r is not None and r != "self":
                        other_writes.setdefault(r, {})[a] = n.args[1] if len(n.args) > 1 else None
                    else:
                        self_writes.append(n)
            if isinstance(n, ast.Call) and isinstance(n.func, ast.Attribute) and n.func.attr == "fill" and self_attr(n.func.value) in tables:
                self_writes.append(n)
                if n.args and const_int(n.args[0]) == 0:
                    zero_fills.add(self_attr(n.func.value))
            if isinstance(n, (ast.Assign, ast.AugAssign)):
                tg = n.targets if isinstance(n, ast.Assign) else [n.target]
                for t in tg:
                    r, a = recv_attr(t)
                    if a not in tables:
                        continue
                    if r == "self":
                        self_writes.append(n)
                        if is_zero_fill(n):
                            zero_fills.add(a)
                    elif r is not None:
                        other_writes.setdefault(r, {})[a] = n.value if isinstance(t, ast.Subscript) and isinstance(n, ast.Assign) else None
        if not self_writes and not other_writes:
            continue
        if name in MUTATOR_EXEMPT:
            ctx.note("mutators: %s exempt -- %s" % (name, MUTATOR_EXEMPT[name]))
            continue
        attr_stores = {}
        for n in walk_no_nested(meth.node):
            if isinstance(n, ast.Assign) and len(n.targets) == 1:
                r, a = recv_attr(n.targets[0])
                if a in cache and not isinstance(n.targets[0], ast.Subscript):
                    attr_stores.setdefault(r, {})[a] = n.value
        regen_on = {dotted(n.func.value) for n in walk_no_nested(meth.node) if isinstance(n, ast.Call) and isinstance(n.func, ast.Attribute)
                    and n.func.attr == "generate_candidate_set"}
        # -- writes into the tables of another (freshly built) object: it must also get a cache that belongs to those tables
        for r, tw in sorted(other_writes.items()):
            cs = attr_stores.get(r, {})
            copied = all(f in cs and self_attr(_unwrap_copy(cs[f])) == f for f in cache) and all(
                t in tw and tw[t] is not None and self_attr(tw[t]) == t for t in tables)
            # a freshly constructed object has the empty cache of n_added == 0: handing it all four tables (the counters with them)
            # makes its first query a cache miss unless nothing was ever added, in which case the empty cache is right
            fresh = any(isinstance(n, ast.Assign) and len(n.targets) == 1 and isinstance(n.targets[0], ast.Name) and n.targets[0].id == r
                        and isinstance(n.value, ast.Call) and (dotted(n.value.func) in (cls.name, "cls", "self.__class__")
                                                                or (isinstance(n.value.func, ast.Call) and dotted(n.value.func.func) == "type"))
                        for n in walk_no_nested(meth.node))
            whole = all(t in tw and tw[t] is not None and self_attr(tw[t]) == t for t in tables)
            if r in regen_on or copied or (fresh and whole and not cs):
                okk, why = True, ""
            elif cs:
                okk, why = None, "`%s` gets tables and some cache fields in a way the analysis does not follow" % r
            else:
                okk, why = False, "%s fills the tables of `%s` but neither rebuilds its candidate set nor hands it the cache that belongs to them" % (meth.qualname, r)
            ctx.ob("mutators", meth, meth.node, "%s writes the tables of `%s`" % (meth.qualname, r),
                   "an object that receives tables also receives a matching candidate cache (rebuilt, or copied together with all four tables)", okk, why)
        if not self_writes:
            continue
        # accepted: all table-writing kernels called also write n_added_records (nadd-once/sumcounters decide the amount),
        # or the method calls generate_candidate_set afterwards, or everything -- tables, counters and cache -- is reset together
        bumps = bool(how) and all("n_added_records" in {self_attr(a) for p, a in c.argmap.items()
                                                        if p in F.effects.written_params(c.callee)} for c in how)
        regen = "self" in regen_on
        cs = attr_stores.get("self", {})
        cset = cs.get("candidate_set")
        empty_counter = isinstance(cset, ast.Call) and not cset.args and not cset.keywords and (dotted(cset.func) or "").split(".")[-1] in ("Counter", "dict")
        reset = not how and zero_fills >= tables and empty_counter and "n_added_sort" in cs and const_int(resolve_cast(cs["n_added_sort"])) == 0
        okk = bumps or regen or reset
        why = "" if okk else "%s changes the tables without changing n_added_records[0] and without rebuilding the candidate set" % meth.qualname
        if not okk and not how and cs:
            okk, why = None, "%s rewrites the tables and touches the cache fields %s in a way the analysis does not follow" % (meth.qualname, sorted(cs))
        ctx.ob("mutators", meth, meth.node, "%s writes the tables" % meth.qualname,
               "a state change invalidates the candidate cache (n_added grows) or rebuilds it", okk, why)
