#!/venv/bin/python
"""Apply a seeded patch to /repo, run every claimed quick check, report which fire, and undo the patch.

    tools/run_seeded.py <patch.diff> [--props C03,C04]
Evidence files are restored afterwards (the committed evidence must come from the unchanged tree).
"""
import json, os, subprocess, sys, shutil, tempfile
from concurrent.futures import ThreadPoolExecutor
HERE = os.path.dirname(os.path.dirname(os.path.abspath(__file__)))

def main():
    patch = os.path.abspath(sys.argv[1])
    props = None
    if "--props" in sys.argv:
        props = sys.argv[sys.argv.index("--props") + 1].split(",")
    man = json.load(open(os.path.join(HERE, "MANIFEST.json")))
    checks = [c for c in man["checks"] if not props or c["property_id"] in props]
    st = subprocess.run(["git", "-C", "/repo", "status", "--porcelain", "--untracked-files=no"], capture_output=True, text=True).stdout.strip()
    if st:
        print("refusing: /repo has local modifications:\n" + st); return 2
    bak = tempfile.mkdtemp(prefix="evbak_")
    shutil.copytree(os.path.join(HERE, "evidence"), os.path.join(bak, "evidence"))
    r = subprocess.run(["git", "-C", "/repo", "apply", patch], capture_output=True, text=True)
    if r.returncode:
        print("patch does not apply:", r.stderr); shutil.rmtree(bak); return 2
    try:
        def run(c):
            p = subprocess.run(c["quick_cmd"], shell=True, cwd=HERE, capture_output=True, text=True)
            return c["property_id"], p.returncode, p.stdout
        with ThreadPoolExecutor(8) as ex:
            res = list(ex.map(run, checks))
        fired = []
        for pid, rc, out in res:
            lines = [l for l in out.splitlines() if l.startswith("  sketchnu/") or l.startswith("ANALYSIS-ERROR")]
            if rc != 0:
                fired.append(pid)
                print("== %s exit=%d" % (pid, rc))
                for l in lines[:6]:
                    print("   " + l.strip()[:260])
        print("FIRED: %s" % (",".join(fired) or "none"))
    finally:
        subprocess.run(["git", "-C", "/repo", "checkout", "--", "."])
        shutil.rmtree(os.path.join(HERE, "evidence"))
        shutil.copytree(os.path.join(bak, "evidence"), os.path.join(HERE, "evidence"))
        shutil.rmtree(bak)
    return 0

if __name__ == "__main__":
    sys.exit(main())
