#!/bin/bash
# tools/confirm_seeded.sh <id> <worktree> <test files...> : confirm a seeded change in its scratch worktree
#   (1) demo fails with the change, (2) demo passes without it, (3) the given test files pass with the change.
id=$1; wt=$2; shift 2
log=/tmp/confirm_$id.log
cd $wt || exit 2
{
echo "== $id in $wt"
git -C $wt apply -R --check SEEDED/patch.diff 2>/dev/null || git -C $wt apply SEEDED/patch.diff   # make sure it is applied
echo "-- demo WITH change"; PYTHONPATH=$wt timeout 900 /venv/bin/python -W ignore SEEDED/demo.py > /tmp/confirm_$id.with 2>&1; echo "exit=$?"; tail -3 /tmp/confirm_$id.with
git -C $wt apply -R SEEDED/patch.diff
echo "-- demo WITHOUT change"; PYTHONPATH=$wt timeout 900 /venv/bin/python -W ignore SEEDED/demo.py > /tmp/confirm_$id.without 2>&1; echo "exit=$?"; tail -2 /tmp/confirm_$id.without
git -C $wt apply SEEDED/patch.diff
echo "-- tests WITH change: $@"; PYTHONPATH=$wt timeout 3000 /venv/bin/python -m pytest -q -p no:cacheprovider --timeout=900 "$@" 2>&1 | tail -2
echo "== done"
} > $log 2>&1
