#!/venv/bin/python
"""Print the markdown table of /verif/seeded/*/meta.json for DESIGN.md section 10.4."""
import json, os
HERE = os.path.dirname(os.path.dirname(os.path.abspath(__file__)))
rows = []
for d in sorted(os.listdir(os.path.join(HERE, "seeded"))):
    m = json.load(open(os.path.join(HERE, "seeded", d, "meta.json")))
    first = "yes" if m["checks_on_first_contact"]["detected"] else "**no**"
    rows.append("| `%s` | %s | %s | %s — %s | %s | %s |" % (
        d, m["breaks_property"], m["needs_to_manifest"].replace("|", "/"), first, m["checks_on_first_contact"]["rules"].replace("|", "/"),
        (m.get("strengthening") or "–").replace("|", "/"), m["checks_now"].replace("FIRED: ", "")))
print("| seeded change | breaks | needs, in order to manifest | detected on first contact — by | strengthening it caused | checks firing now |")
print("|---|---|---|---|---|---|")
print("\n".join(rows))
