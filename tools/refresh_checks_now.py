#!/venv/bin/python
"""Recompute the `checks_now` field of every /verif/seeded/*/meta.json (which checks report the archived change on today's rules).

    tools/refresh_checks_now.py
In memory; /repo is not touched.  A seed whose target property is not among the checks firing is reported on stderr."""
import json, os, sys, warnings
sys.path.insert(0, os.path.dirname(os.path.dirname(os.path.abspath(__file__))))
warnings.simplefilter("ignore")
from concurrent.futures import ProcessPoolExecutor
from sa import mutants as MU
from sa.corpus import ALL_PROPS

HERE = os.path.dirname(os.path.dirname(os.path.abspath(__file__)))


def one(args):
    sid, prop = args
    import warnings
    warnings.simplefilter("ignore")
    from sa import props as P
    from sa.report import Ctx, load_known
    from sa.model import Model, AnalysisError
    src = MU.apply_unified_diff(MU.load_sources(), open(os.path.join(HERE, "seeded", sid, "patch.diff")).read())
    if src is None:
        return sid, prop, "skip"
    try:
        ctx = Ctx(prop, "quick", model=Model(sources=src))
        P.PROPS[prop]["run"](ctx)
    except AnalysisError:
        return sid, prop, "undecided"
    except Exception:
        return sid, prop, "crash"
    known = {(k.get("rule"), k.get("key")) for k in load_known() if k.get("status") == "open" and k.get("property") == prop}
    if any(o.status == "fail" and (o.rule, o.key) not in known for o in ctx.obs):
        return sid, prop, "fail"
    if any(o.status == "undecided" for o in ctx.obs) or ctx.floor_errors:
        return sid, prop, "undecided"
    return sid, prop, "ok"


if __name__ == "__main__":
    sids = sorted(d for d in os.listdir(os.path.join(HERE, "seeded")) if os.path.exists(os.path.join(HERE, "seeded", d, "meta.json")))
    tasks = [(s, p) for s in sids for p in ALL_PROPS]
    with ProcessPoolExecutor(max_workers=16) as ex:
        res = list(ex.map(one, tasks, chunksize=4))
    by = {}
    for sid, prop, st in res:
        by.setdefault(sid, {})[prop] = st
    for sid in sids:
        mp = os.path.join(HERE, "seeded", sid, "meta.json")
        meta = json.load(open(mp))
        fired = [p for p in ALL_PROPS if by[sid][p] == "fail"]
        und = [p for p in ALL_PROPS if by[sid][p] in ("undecided", "crash")]
        now = "FIRED: " + ",".join(fired) + (("   UNDECIDED: " + ",".join(und)) if und else "")
        if meta["breaks_property"] not in fired:
            print("TARGET NOT FIRING: %s (%s) -> %s" % (sid, meta["breaks_property"], now), file=sys.stderr)
        if meta.get("checks_now") != now:
            meta["checks_now"] = now
            json.dump(meta, open(mp, "w"), indent=1)
    print("refreshed %d seeds" % len(sids))
