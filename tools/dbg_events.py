"""usage: dbg_events.py <variant-id|-> <module> <func> [kinds]  -- dump walker events of a kernel/method (debug aid)."""
import os, sys, warnings
sys.path.insert(0, os.path.dirname(os.path.dirname(os.path.abspath(__file__))))
warnings.simplefilter("ignore")
from sa.mutants import *
from sa.corpus import CORPUS
from sa.report import Ctx
from sa.facts import facts_of
from sa.flow import show_cond
from sa.lin import show_lin
mid, mod, fn = sys.argv[1:4]
kinds = set(sys.argv[4].split(",")) if len(sys.argv) > 4 else None
src = load_sources()
if mid != "-":
    m = next(x for x in CORPUS if x.id == mid)
    src = apply(m, src)
ctx = Ctx("C01", "quick", model=Model(sources=src))
F = facts_of(ctx)
import sa.rules_hll, sa.rules_arith
if "." in fn:
    c, me = fn.split(".")
    f = ctx.model.cls(mod, c).methods[me]
else:
    f = ctx.model.func(mod, fn)
from sa.rules_arith import walk_kernel
w = walk_kernel(F, f) if f.is_kernel else F.walk(f)
for e in w.events:
    if kinds and e.kind not in kinds:
        continue
    d = {k: getattr(e, k) for k in ("name", "value", "aug", "old", "idx", "cond", "attr", "target", "exc_name") if hasattr(e, k)}
    if "cond" in d:
        d["cond"] = show_cond(d["cond"])
    print(e.kind, getattr(e.node, "lineno", "?"), d, "| path:", [(getattr(n, "lineno", 0), p if not isinstance(p, tuple) else p[0]) for n, p, _ in e.path])
