#!/venv/bin/python
"""Re-run every archived seeded change against the current checks and refresh meta.json['checks_now']."""
import json, os, subprocess, sys
HERE = os.path.dirname(os.path.dirname(os.path.abspath(__file__)))
bad = 0
for d in sorted(os.listdir(os.path.join(HERE, "seeded"))):
    mp = os.path.join(HERE, "seeded", d, "meta.json")
    m = json.load(open(mp))
    r = subprocess.run([os.path.join(HERE, "tools", "run_seeded.py"), os.path.join(HERE, "seeded", d, "patch.diff")], capture_output=True, text=True)
    fired = [l for l in r.stdout.splitlines() if l.startswith("FIRED")]
    now = fired[0] if fired else "ERROR " + r.stdout[-200:]
    m["checks_now"] = now
    json.dump(m, open(mp, "w"), indent=1)
    ok = m["breaks_property"] in now.replace("FIRED: ", "").split(",")
    # exit code 1 (VIOLATION) for the targeted property, not merely exit 2?
    viol = any(l.startswith("== %s exit=1" % m["breaks_property"]) for l in r.stdout.splitlines())
    print("%-48s %-4s %s %s" % (d, m["breaks_property"], "VIOLATION" if viol else ("fired(exit2)" if ok else "MISSED"), now))
    bad += (not viol)
print("not reported as VIOLATION by the targeted property:", bad)
sys.exit(1 if bad else 0)
