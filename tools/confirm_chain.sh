#!/bin/bash
# usage: confirm_chain.sh "C06d:tests/test_countmin.py" ...   (suffix c -> /tmp/wt3_, d -> /tmp/wt4_)
for spec in "$@"; do
  id=${spec%%:*}; tests=${spec#*:}
  case $id in
    *c) base=${id%c}; wt=/tmp/wt3_$base;;
    *d) base=${id%d}; wt=/tmp/wt4_$base;;
    *e) base=${id%e}; wt=/tmp/wt5_$base;;
    *f) base=${id%f}; wt=/tmp/wt6_$base;;
    *g) base=${id%g}; wt=/tmp/wt7_$base;;
    *h) base=${id%h}; wt=/tmp/wt8_$base;;
    *i) base=${id%i}; wt=/tmp/wt9_$base;;
    *j) base=${id%j}; wt=/tmp/wt10_$base;;
  esac
  bash /verif/tools/confirm_seeded.sh $id $wt $tests
done
