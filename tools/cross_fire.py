#!/venv/bin/python
"""For every archived seeded change: which properties' checks report it (in memory).  Used to judge precision across properties:
a check should fire only if its own property is broken by the change."""
import os, sys, warnings
sys.path.insert(0, os.path.dirname(os.path.dirname(os.path.abspath(__file__))))
warnings.simplefilter("ignore")
from concurrent.futures import ProcessPoolExecutor
from sa import mutants as MU
from sa.corpus import CORPUS, ALL_PROPS


def one(args):
    mid, prop = args
    import warnings
    warnings.simplefilter("ignore")
    m = next(x for x in CORPUS if x.id == mid)
    m2 = MU.M(m.id, [prop], m.module, m.old, m.new, kind="B")
    # run_one looks the mutant up in CORPUS by id; emulate
    from sa import props as P
    from sa.report import Ctx, load_known
    from sa.model import Model, AnalysisError
    src = MU.apply(m, MU.load_sources())
    try:
        ctx = Ctx(prop, "quick", model=Model(sources=src))
        P.PROPS[prop]["run"](ctx)
    except AnalysisError as e:
        return (mid, prop, "analysis-error", str(e)[:80])
    except Exception as e:
        return (mid, prop, "crash", "%s: %s" % (type(e).__name__, str(e)[:80]))
    known = {(k.get("rule"), k.get("key")) for k in load_known() if k.get("status") == "open" and k.get("property") == prop}
    fails = [o for o in ctx.obs if o.status == "fail" and (o.rule, o.key) not in known]
    und = [o for o in ctx.obs if o.status == "undecided"]
    if fails:
        return (mid, prop, "fail", sorted({o.rule for o in fails}))
    if und or ctx.floor_errors:
        return (mid, prop, "undecided", sorted({o.rule for o in und}) or ctx.floor_errors[:1])
    return (mid, prop, "ok", "")


if __name__ == "__main__":
    ids = [m.id for m in CORPUS if m.id.startswith("seeded:")]
    if len(sys.argv) > 1:
        ids = [i for i in ids if any(a in i for a in sys.argv[1:])]
    tasks = [(i, p) for i in ids for p in ALL_PROPS]
    with ProcessPoolExecutor(max_workers=16) as ex:
        res = list(ex.map(one, tasks, chunksize=2))
    by = {}
    for mid, prop, st, det in res:
        by.setdefault(mid, []).append((prop, st, det))
    for mid in ids:
        m = next(x for x in CORPUS if x.id == mid)
        tgt = m.props[0]
        fired = ["%s%s" % (p, "" if st == "fail" else "?") for p, st, d in by[mid] if st != "ok"]
        print("%-62s target %s  fired %s" % (mid, tgt, " ".join(fired)))
        for p, st, d in by[mid]:
            if st != "ok" and p != tgt:
                print("      %s %s %s" % (p, st, d))
