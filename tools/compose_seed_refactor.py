#!/venv/bin/python
"""Detection-under-refactoring stress test: apply an archived behaviour-preserving refactoring (refactors/Rnn/patch.diff) and then
an archived seeded defect (seeded/<id>/patch.diff) in memory; the seed's target check must still not pass.

    tools/compose_seed_refactor.py [refactors_per_seed] [seed]
`missed` = the check is silent on (refactoring + defect): a detection that depended on the original spelling.  `undecided` = exit 2
(fail-closed, acceptable).  Compositions where the second patch does not fit are skipped."""
import os, sys, random, json, warnings
sys.path.insert(0, os.path.dirname(os.path.dirname(os.path.abspath(__file__))))
warnings.simplefilter("ignore")
from concurrent.futures import ProcessPoolExecutor
from sa import mutants as MU

BASE = os.path.dirname(os.path.dirname(os.path.abspath(__file__)))
RROOT = os.path.join(BASE, "refactors")
SROOT = os.path.join(BASE, "seeded")


def compose(r, s):
    src = MU.load_sources()
    for p in (os.path.join(RROOT, r, "patch.diff"), os.path.join(SROOT, s, "patch.diff")):
        src = MU.apply_unified_diff(src, open(p).read())
        if src is None:
            return None
    return src


def run(args):
    r, s, prop = args
    import warnings
    warnings.simplefilter("ignore")
    from sa import props as P
    from sa.report import Ctx, load_known
    from sa.model import Model, AnalysisError
    src = compose(r, s)
    if src is None:
        return r, s, prop, "skip", ""
    try:
        import ast
        for m, t in src.items():
            ast.parse(t)
    except SyntaxError:
        return r, s, prop, "skip", ""
    try:
        ctx = Ctx(prop, "quick", model=Model(sources=src))
        P.PROPS[prop]["run"](ctx)
    except AnalysisError as e:
        return r, s, prop, "analysis-error", str(e)
    except Exception as e:
        return r, s, prop, "crash", "%s: %s" % (type(e).__name__, e)
    known = {(k.get("rule"), k.get("key")) for k in load_known() if k.get("status") == "open" and k.get("property") == prop}
    fails = [o for o in ctx.obs if o.status == "fail" and (o.rule, o.key) not in known]
    und = [o for o in ctx.obs if o.status == "undecided"]
    if fails:
        return r, s, prop, "caught", fails[0].rule
    if und or ctx.floor_errors:
        return r, s, prop, "undecided", und[0].rule if und else ctx.floor_errors[0]
    return r, s, prop, "missed", ""


if __name__ == "__main__":
    k = int(sys.argv[1]) if len(sys.argv) > 1 else 4
    seed = int(sys.argv[2]) if len(sys.argv) > 2 else 1
    rng = random.Random(seed)
    rids = sorted(d for d in os.listdir(RROOT) if os.path.exists(os.path.join(RROOT, d, "patch.diff"))
                  and not os.path.exists(os.path.join(RROOT, d, "KIND")))
    jobs = []
    for s in sorted(os.listdir(SROOT)):
        mp = os.path.join(SROOT, s, "meta.json")
        if not os.path.exists(mp):
            continue
        prop = json.load(open(mp))["breaks_property"]
        # prefer refactorings that touch the same file as the seed
        sfiles = set(l.split("/")[-1] for l in open(os.path.join(SROOT, s, "patch.diff")).read().split("\n") if l.startswith("+++ b/"))
        cand = []
        for r in rids:
            rf = set(l.split("/")[-1] for l in open(os.path.join(RROOT, r, "patch.diff")).read().split("\n") if l.startswith("+++ b/"))
            if rf & sfiles:
                cand.append(r)
        rng.shuffle(cand)
        got = 0
        for r in cand:
            if compose(r, s) is not None:
                jobs.append((r, s, prop))
                got += 1
                if got >= k:
                    break
    print("compositions: %d" % len(jobs))
    tally = {}
    with ProcessPoolExecutor(max_workers=12) as ex:
        for r, s, prop, st, info in ex.map(run, jobs, chunksize=2):
            tally[st] = tally.get(st, 0) + 1
            if st not in ("caught", "skip"):
                print("%s + %s  %s  %s  %s" % (r, s, prop, st, info))
    print("tally:", tally)
