#!/venv/bin/python
"""Run every claimed quick check on /repo's sources with a unified diff applied IN MEMORY (nothing is written to /repo).

    tools/try_patch.py <patch.diff> [--props C03,C04] [-v]
Prints, per property, fired / undecided / silent and the failing obligations.  (Development aid; the registered checks always read
/repo's working tree.)"""
import os, sys, warnings
sys.path.insert(0, os.path.dirname(os.path.dirname(os.path.abspath(__file__))))
warnings.simplefilter("ignore")
from concurrent.futures import ProcessPoolExecutor
from sa import mutants as MU
from sa.corpus import ALL_PROPS


def run(args):
    prop, patch = args
    import warnings
    warnings.simplefilter("ignore")
    from sa import props as P
    from sa.report import Ctx, load_known
    from sa.model import Model, AnalysisError
    src = MU.apply_unified_diff(MU.load_sources(), open(patch).read())
    if src is None:
        return prop, "patch-does-not-apply", []
    try:
        ctx = Ctx(prop, "quick", model=Model(sources=src))
        P.PROPS[prop]["run"](ctx)
    except AnalysisError as e:
        return prop, "analysis-error", [str(e)]
    except Exception as e:
        return prop, "crash", ["%s: %s" % (type(e).__name__, e)]
    known = {(k.get("rule"), k.get("key")) for k in load_known() if k.get("status") == "open" and k.get("property") == prop}
    fails = [o for o in ctx.obs if o.status == "fail" and (o.rule, o.key) not in known]
    und = [o for o in ctx.obs if o.status == "undecided"]
    lines = ["[%s] %s -- %s -- %s" % (o.rule, o.key, o.goal[:90], o.detail[:160]) for o in fails + und]
    if fails:
        return prop, "FIRED", lines
    if und or ctx.floor_errors:
        return prop, "undecided", lines + list(ctx.floor_errors)
    return prop, "silent", []


if __name__ == "__main__":
    patch = os.path.abspath(sys.argv[1])
    props = ALL_PROPS
    if "--props" in sys.argv:
        props = sys.argv[sys.argv.index("--props") + 1].split(",")
    with ProcessPoolExecutor(max_workers=8) as ex:
        res = list(ex.map(run, [(p, patch) for p in props]))
    for prop, st, lines in res:
        if st != "silent":
            print("== %s %s" % (prop, st))
            for l in lines[:5]:
                print("   " + l)
    print("FIRED: %s   UNDECIDED: %s" % (",".join(p for p, s, _ in res if s == "FIRED") or "none", ",".join(p for p, s, _ in res if s not in ("FIRED", "silent")) or "none"))
