#!/venv/bin/python
"""Mutation sweep (development aid): classic operators applied to the package's functions, every mutant run through all 19 checks
in memory; prints the survivors (mutants no check reports) for manual triage."""
import ast, copy, os, random, sys, warnings
sys.path.insert(0, os.path.dirname(os.path.dirname(os.path.abspath(__file__))))
warnings.simplefilter("ignore")
from concurrent.futures import ProcessPoolExecutor
from sa import mutants as MU
from sa.corpus import ALL_PROPS

SKIP_FUNCS = {"_log_worker", "__del__", "setup_logger"}
EXT = os.environ.get("SWEEP_EXT", "1") != "0"
REL = {ast.Lt: ast.LtE, ast.LtE: ast.Lt, ast.Gt: ast.GtE, ast.GtE: ast.Gt, ast.Eq: ast.NotEq, ast.NotEq: ast.Eq}
ARI = {ast.Add: ast.Sub, ast.Sub: ast.Add, ast.Mult: ast.FloorDiv, ast.LShift: ast.RShift, ast.RShift: ast.LShift, ast.BitAnd: ast.BitOr, ast.BitXor: ast.BitOr}


def sites(tree):
    out = []
    for f in ast.walk(tree):
        if isinstance(f, ast.FunctionDef) and f.name not in SKIP_FUNCS:
            skip = set()
            for d in f.decorator_list + ([f.returns] if f.returns else []) + [a.annotation for a in f.args.args + f.args.kwonlyargs if a.annotation]:
                skip |= {id(x) for x in ast.walk(d)}
            for n in ast.walk(f):
                if id(n) in skip or (isinstance(n, ast.Expr) and isinstance(n.value, ast.Constant)):
                    continue
                if isinstance(n, ast.Compare) and len(n.ops) == 1 and type(n.ops[0]) in REL:
                    out.append((f.name, n, "rel"))
                elif isinstance(n, ast.BinOp) and type(n.op) in ARI:
                    out.append((f.name, n, "ari"))
                elif isinstance(n, ast.AugAssign) and type(n.op) in ARI:
                    out.append((f.name, n, "aug"))
                elif isinstance(n, ast.Constant) and isinstance(n.value, int) and not isinstance(n.value, bool) and 0 <= n.value <= 64:
                    out.append((f.name, n, "const"))
                elif isinstance(n, ast.If) and not n.orelse and len(n.body) == 1 and isinstance(n.body[0], (ast.Assign, ast.AugAssign, ast.Expr)):
                    out.append((f.name, n, "delif"))
                if EXT:
                    if isinstance(n, ast.If):
                        out.append((f.name, n, "negif"))
                    if isinstance(n, ast.BoolOp):
                        out.append((f.name, n, "boolop"))
                    if isinstance(n, ast.Call) and len(n.args) >= 2 and not any(isinstance(a, ast.Starred) for a in n.args):
                        for i in range(len(n.args) - 1):
                            if ast.dump(n.args[i]) != ast.dump(n.args[i + 1]):
                                out.append((f.name, (n, i), "swapargs"))
                    if isinstance(n, ast.Call) and isinstance(n.func, ast.Name) and n.func.id in ("min", "max"):
                        out.append((f.name, n, "minmax"))
                    if isinstance(n, ast.Subscript) and isinstance(n.slice, ast.Tuple) and len(n.slice.elts) >= 2 and ast.dump(n.slice.elts[0]) != ast.dump(n.slice.elts[1]):
                        out.append((f.name, n, "swapidx"))
                    if isinstance(n, (ast.For, ast.While, ast.If, ast.FunctionDef, ast.With, ast.Try)):
                        for fld in ("body", "orelse"):
                            blk = getattr(n, fld, None) or []
                            for j, st in enumerate(blk):
                                if isinstance(st, (ast.Assign, ast.AugAssign)) or (isinstance(st, ast.Expr) and isinstance(st.value, ast.Call)):
                                    if len(blk) > 1:
                                        out.append((f.name, (n, fld, j), "delstmt"))
                    if isinstance(n, ast.UnaryOp) and isinstance(n.op, ast.Not):
                        out.append((f.name, n, "dropnot"))
                    if isinstance(n, ast.Constant) and isinstance(n.value, int) and not isinstance(n.value, bool) and 1 <= n.value <= 64:
                        out.append((f.name, n, "constm1"))
    return out


def mutate(src, mod, idx):
    tree = ast.parse(src[mod])
    ss = sites(tree)
    fname, n, kind = ss[idx]
    before = ast.unparse(n)[:70] if isinstance(n, ast.AST) else ""
    if kind == "rel":
        n.ops = [REL[type(n.ops[0])]()]
    elif kind in ("ari", "aug"):
        n.op = ARI[type(n.op)]()
    elif kind == "const":
        n.value = n.value + 1
    elif kind == "delif":
        n.test = ast.Constant(value=False)
    elif kind == "negif":
        n.test = ast.UnaryOp(op=ast.Not(), operand=n.test)
    elif kind == "boolop":
        n.op = ast.Or() if isinstance(n.op, ast.And) else ast.And()
    elif kind == "swapargs":
        n, i = n
        before = ast.unparse(n)[:70]
        n.args[i], n.args[i + 1] = n.args[i + 1], n.args[i]
    elif kind == "minmax":
        n.func.id = "max" if n.func.id == "min" else "min"
    elif kind == "swapidx":
        n.slice.elts[0], n.slice.elts[1] = n.slice.elts[1], n.slice.elts[0]
    elif kind == "delstmt":
        n, fld, j = n
        st = getattr(n, fld)[j]
        before = ast.unparse(st)[:70]
        getattr(n, fld)[j] = ast.copy_location(ast.Pass(), st)
        n = st
    elif kind == "dropnot":
        before = ast.unparse(n)[:70]
        n.op = ast.UAdd() if False else n.op
        n.operand = ast.UnaryOp(op=ast.Not(), operand=n.operand)
    elif kind == "constm1":
        n.value = n.value - 1
    out = dict(src)
    out[mod] = ast.unparse(tree) + "\n"
    after = "<deleted>" if kind == "delstmt" else ast.unparse(n)[:70]
    return out, "%s:%s %s `%s` -> `%s`" % (mod, fname, kind, before, after), getattr(n, "lineno", 0)


def run(args):
    mod, idx = args
    import warnings
    warnings.simplefilter("ignore")
    from sa import props as P
    from sa.report import Ctx, load_known
    from sa.model import Model, AnalysisError
    src0 = MU.load_sources()
    try:
        src, desc, line = mutate(src0, mod, idx)
    except Exception as e:
        return (mod, idx, "mutate-error %s" % e, [], 0)
    fired, und = [], []
    for prop in ALL_PROPS:
        try:
            ctx = Ctx(prop, "quick", model=Model(sources=src))
            P.PROPS[prop]["run"](ctx)
        except AnalysisError:
            und.append(prop)
            continue
        except Exception:
            und.append(prop + "!")
            continue
        known = {(k.get("rule"), k.get("key")) for k in load_known() if k.get("status") == "open" and k.get("property") == prop}
        if any(o.status == "fail" and (o.rule, o.key) not in known for o in ctx.obs):
            fired.append(prop)
        elif any(o.status == "undecided" for o in ctx.obs) or ctx.floor_errors:
            und.append(prop)
    return (mod, idx, desc, fired, und, line)


if __name__ == "__main__":
    random.seed(int(sys.argv[2]) if len(sys.argv) > 2 else 1)
    n = 10 ** 9 if len(sys.argv) > 1 and sys.argv[1] == "all" else int(sys.argv[1]) if len(sys.argv) > 1 else 100
    src0 = MU.load_sources()
    tasks = []
    for mod in ("countmin", "heavyhitters", "hyperloglog", "hashes", "helpers"):
        k = len(sites(ast.parse(src0[mod])))
        tasks += [(mod, i) for i in range(k)]
    random.shuffle(tasks)
    tasks = tasks[:n]
    with ProcessPoolExecutor(max_workers=16) as ex:
        res = list(ex.map(run, tasks, chunksize=1))
    surv = [r for r in res if not r[3]]
    print("%d mutants, %d reported by some check, %d survivors (of which %d only undecided)" % (len(res), len(res) - len(surv), len(surv), len([r for r in surv if r[4]])))
    for r in sorted(surv, key=lambda r: (r[0], r[5] if len(r) > 5 else 0)):
        print("SURVIVOR line %s %s%s" % (r[5] if len(r) > 5 else "?", r[2], ("   [undecided: %s]" % ",".join(r[4])) if r[4] else ""))
