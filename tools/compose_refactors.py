#!/venv/bin/python
"""False-alarm stress test: apply PAIRS of archived behaviour-preserving refactorings (refactors/Rnn/patch.diff) on top of each
other in memory and run every claimed quick check on the result.  A pair whose second patch no longer fits is skipped.

    tools/compose_refactors.py [max_pairs] [seed]
Any FIRED line is a false alarm to triage (both patches are equivalence-demonstrated individually and touch disjoint lines when
the composition applies); undecided results are listed separately."""
import os, sys, random, itertools, warnings
sys.path.insert(0, os.path.dirname(os.path.dirname(os.path.abspath(__file__))))
warnings.simplefilter("ignore")
from concurrent.futures import ProcessPoolExecutor
from sa import mutants as MU
from sa.corpus import ALL_PROPS

ROOT = os.path.join(os.path.dirname(os.path.dirname(os.path.abspath(__file__))), "refactors")


def compose(a, b):
    src = MU.load_sources()
    for r in (a, b):
        src = MU.apply_unified_diff(src, open(os.path.join(ROOT, r, "patch.diff")).read())
        if src is None:
            return None
    return src


def run(args):
    a, b, prop = args
    import warnings
    warnings.simplefilter("ignore")
    from sa import props as P
    from sa.report import Ctx, load_known
    from sa.model import Model, AnalysisError
    src = compose(a, b)
    if src is None:
        return a, b, prop, "skip", []
    try:
        import ast
        for m, s in src.items():
            ast.parse(s)
    except SyntaxError:
        return a, b, prop, "skip", []
    try:
        ctx = Ctx(prop, "quick", model=Model(sources=src))
        P.PROPS[prop]["run"](ctx)
    except AnalysisError as e:
        return a, b, prop, "analysis-error", [str(e)]
    except Exception as e:
        return a, b, prop, "crash", ["%s: %s" % (type(e).__name__, e)]
    known = {(k.get("rule"), k.get("key")) for k in load_known() if k.get("status") == "open" and k.get("property") == prop}
    fails = [o for o in ctx.obs if o.status == "fail" and (o.rule, o.key) not in known]
    und = [o for o in ctx.obs if o.status == "undecided"]
    lines = ["[%s] %s -- %s" % (o.rule, o.key, o.detail[:160]) for o in fails + und]
    if fails:
        return a, b, prop, "FIRED", lines
    if und or ctx.floor_errors:
        return a, b, prop, "undecided", lines + list(ctx.floor_errors)
    return a, b, prop, "silent", []


if __name__ == "__main__":
    n = int(sys.argv[1]) if len(sys.argv) > 1 else 60
    seed = int(sys.argv[2]) if len(sys.argv) > 2 else 1
    ids = sorted(d for d in os.listdir(ROOT) if os.path.exists(os.path.join(ROOT, d, "patch.diff"))
                 and not os.path.exists(os.path.join(ROOT, d, "KIND")))
    pairs = [(a, b) for a, b in itertools.permutations(ids, 2) if a < b]
    random.Random(seed).shuffle(pairs)
    usable = []
    for a, b in pairs:
        if compose(a, b) is not None:
            usable.append((a, b))
        if len(usable) >= n:
            break
    print("pairs that compose: %d (of %d tried)" % (len(usable), len(pairs)))
    jobs = [(a, b, p) for a, b in usable for p in ALL_PROPS]
    bad = 0
    with ProcessPoolExecutor(max_workers=12) as ex:
        for a, b, prop, st, lines in ex.map(run, jobs, chunksize=4):
            if st in ("FIRED", "crash", "analysis-error", "undecided"):
                bad += st != "undecided"
                print("%s+%s %s %s" % (a, b, prop, st))
                for l in lines[:3]:
                    print("    " + l)
    print("runs: %d  alarms/crashes: %d" % (len(jobs), bad))
