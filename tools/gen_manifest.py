#!/venv/bin/python
"""Regenerate /verif/MANIFEST.json from sa.props (claimed checks) + the not-applicable table below."""
import json, os, sys, warnings
warnings.simplefilter("ignore")
HERE = os.path.dirname(os.path.dirname(os.path.abspath(__file__)))
sys.path.insert(0, HERE)
from sa import props

NOT_APPLICABLE = {
    "C07": "Probabilistic error envelope of a floating-point estimator over random key sets and seeds: no dataflow, typestate or "
           "table argument bounds a numerical output distribution. Its structural ingredients (table row per precision, regime "
           "switch points, rank formula, LC form) are decided under C17 and C02; C07 itself is not claimed.",
}
ALL = ["C%02d" % i for i in range(1, 21)]

checks = []
for pid in ALL:
    sp = props.PROPS.get(pid)
    if not sp:
        continue
    checks.append({
        "property_id": pid,
        "quick_cmd": "/venv/bin/python -m sa.check %s --tier quick" % pid,
        "thorough_cmd": "/venv/bin/python -m sa.check %s --tier thorough" % pid,
        "evidence_file": "/verif/evidence/%s.json" % pid,
        "replay_cmd_template": "/venv/bin/python -m sa.check %s --replay {path}" % pid,
        "engine": "sa",
        "level_claimed": {"category": sp["level"], "text": sp["explanation"], "design_ref": "DESIGN.md section 4 (%s)" % pid},
        "level_note": "Trusted: " + "; ".join(sp["trusted"]),
        "technique": sp.get("technique", "static analysis: ast-based flow walk with branch facts + difference-bound entailment, "
                                         "effect/def-use and table-agreement rules over /repo's working tree"),
    })
na = []
for pid in ALL:
    if pid not in props.PROPS:
        na.append({"property_id": pid, "reason": NOT_APPLICABLE.get(pid, "check not built yet in this framework (static rules designed in DESIGN.md section 4; not claimed until the rule set exists)")})
man = {
    "version": 1,
    "setup_cmd": "/venv/bin/python -m sa.selfcheck",
    "hooks": {
        "guard": "SKETCHNU_VERIF",
        "enable": "no source hooks are needed: the checks read /repo's working tree with ast; the guard name is reserved and unused",
        "baseline_off_cmd": "cd /repo && /venv/bin/python -m pytest -ra -q -p no:cacheprovider --timeout=900 --continue-on-collection-errors",
        "source_commits": [],
        "add_only": True,
    },
    "engines": [{"name": "sa", "path": "/verif/sa", "serves_properties": [c["property_id"] for c in checks],
                 "kind_free_text": "repository-specific static analyser (pure stdlib ast): source model + call graph, path-forking flow walk with "
                                   "branch facts, linear-form entailment, effect/def-use analysis, table extractors, two finite abstract interpreters; "
                                   "in-memory mutant self-test in the thorough tier"}],
    "checks": checks,
    "not_applicable": na,
    "notes": "Technique family: static analysis only. Exit 0 = all obligations discharged; 1 = VIOLATION; 2 = ANALYSIS-ERROR (fail-closed). "
             "Fix commits in /repo: 0b042b5 (F1), 4cdd39b (F3); see known_findings.json and DESIGN.md section 3.",
}
with open(os.path.join(HERE, "MANIFEST.json"), "w") as f:
    json.dump(man, f, indent=1)
print("MANIFEST.json: %d checks, %d not_applicable" % (len(checks), len(na)))
