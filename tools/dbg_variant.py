import os, sys
sys.path.insert(0, os.path.dirname(os.path.dirname(os.path.abspath(__file__))))
import sys, warnings
warnings.simplefilter("ignore")
from sa.mutants import *
from sa.corpus import CORPUS
from sa import props as P
from sa.report import Ctx
mid, prop = sys.argv[1], sys.argv[2]
m = next(x for x in CORPUS if x.id == mid)
src = apply(m, load_sources())
ctx = Ctx(prop, "quick", model=Model(sources=src))
P.PROPS[prop]["run"](ctx)
for o in ctx.obs:
    if o.status != "ok":
        print(o.status, o.rule, o.key, "|", o.goal, "|", o.detail)
        for x in o.facts[:8]:
            print("    ", x)
print(ctx.floor_errors)
