#!/venv/bin/python
"""usage: fa_summary.py <patch>...  -- failing (not undecided) obligations of every check on each patch, grouped by rule (false-alarm triage)."""
import os, sys, warnings
sys.path.insert(0, os.path.dirname(os.path.dirname(os.path.abspath(__file__))))
warnings.simplefilter("ignore")
from concurrent.futures import ProcessPoolExecutor
from sa import mutants as MU
from sa.corpus import ALL_PROPS


def run(args):
    prop, patch = args
    import warnings
    warnings.simplefilter("ignore")
    from sa import props as P
    from sa.report import Ctx, load_known
    from sa.model import Model, AnalysisError
    src = MU.apply_unified_diff(MU.load_sources(), open(patch).read())
    if src is None:
        return prop, patch, [("patch", "does not apply", "")]
    try:
        ctx = Ctx(prop, "quick", model=Model(sources=src))
        P.PROPS[prop]["run"](ctx)
    except AnalysisError as e:
        return prop, patch, [("ANALYSIS-ERROR", str(e)[:120], "")]
    except Exception as e:
        return prop, patch, [("CRASH", "%s: %s" % (type(e).__name__, str(e)[:120]), "")]
    known = {(k.get("rule"), k.get("key")) for k in load_known() if k.get("status") == "open" and k.get("property") == prop}
    return prop, patch, [(o.rule, o.key.split("::", 1)[-1][:70], o.detail[:150]) for o in ctx.obs if o.status == "fail" and (o.rule, o.key) not in known]


if __name__ == "__main__":
    jobs = [(p, os.path.abspath(x)) for x in sys.argv[1:] for p in ALL_PROPS]
    with ProcessPoolExecutor(max_workers=12) as ex:
        res = list(ex.map(run, jobs, chunksize=2))
    by = {}
    for prop, patch, fails in res:
        name = patch.split("/")[-3] if patch.endswith("REFACTOR/patch.diff") else os.path.basename(os.path.dirname(patch))
        for rule, key, det in fails:
            by.setdefault((name, rule, key, det), set()).add(prop)
    for (name, rule, key, det), props in sorted(by.items()):
        print("%-8s %-14s %-72s %s  [%s]" % (name, rule, key, det, ",".join(sorted(props))))
