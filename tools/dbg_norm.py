"""usage: dbg_norm.py <variant-id|patch.diff|-> <module> <Class.method|func>  -- print the normalised source of one function (debug aid)."""
import os, sys, ast, warnings
sys.path.insert(0, os.path.dirname(os.path.dirname(os.path.abspath(__file__))))
warnings.simplefilter("ignore")
from sa.mutants import *
from sa.corpus import CORPUS
mid, mod, fn = sys.argv[1:4]
src = load_sources()
if os.path.exists(mid):
    src = apply_unified_diff(src, open(mid).read())
elif mid != "-":
    m = next(x for x in CORPUS if x.id == mid)
    src = apply(m, src)
model = Model(sources=src)
if "." in fn:
    c, me = fn.split(".")
    f = model.cls(mod, c).methods[me]
else:
    f = model.func(mod, fn)
print(ast.unparse(f.node))
