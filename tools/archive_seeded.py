#!/venv/bin/python
"""Archive a confirmed seeded change:  tools/archive_seeded.py <id> <property> <worktree> <needs> <detected_initially yes|no> <rules> [<strengthening>]"""
import json, os, shutil, subprocess, sys
HERE = os.path.dirname(os.path.dirname(os.path.abspath(__file__)))
sid, prop, wt, needs, initially, rules = sys.argv[1:7]
strength = sys.argv[7] if len(sys.argv) > 7 else ""
dst = os.path.join(HERE, "seeded", sid)
os.makedirs(dst, exist_ok=True)
for f in ("patch.diff", "demo.py", "notes.md"):
    shutil.copy(os.path.join(wt, "SEEDED", f), os.path.join(dst, f))
log = open("/tmp/confirm_%s.log" % sid.split("-")[0]).read() if os.path.exists("/tmp/confirm_%s.log" % sid.split("-")[0]) else ""
r = subprocess.run([os.path.join(HERE, "tools", "run_seeded.py"), os.path.join(dst, "patch.diff")], capture_output=True, text=True)
fired = [l for l in r.stdout.splitlines() if l.startswith("FIRED")]
meta = {
    "id": sid, "breaks_property": prop,
    "origin": "independent sub-agent given only the property text and a scratch worktree of /repo",
    "needs_to_manifest": needs,
    "confirmed_by_me": {
        "how": "tools/confirm_seeded.sh in the scratch worktree: demo with the change (must exit 1), demo without it (must exit 0), "
               "the module's test file(s) with the change (must pass); the sub-agent additionally ran the full suite (51 passed)",
        "log": log.strip().splitlines(),
    },
    "checks_on_first_contact": {"detected": initially == "yes", "rules": rules},
    "strengthening": strength,
    "checks_now": fired[0] if fired else r.stdout[-300:],
    "how_to_replay": "git -C /repo apply /verif/seeded/%s/patch.diff && (cd /verif && /venv/bin/python -m sa.check %s); git -C /repo checkout -- ." % (sid, prop),
}
json.dump(meta, open(os.path.join(dst, "meta.json"), "w"), indent=1)
print(sid, meta["checks_now"])
